#!/usr/bin/env python3
"""Regenerates /verif/MANIFEST.json from checklib/props.py and checklib/manifest_texts.py."""
import json, os, subprocess, sys
VERIF = os.path.dirname(os.path.dirname(os.path.abspath(__file__)))
sys.path.insert(0, VERIF)
from checklib import props, manifest_texts as T

def main():
    all_ids = [json.loads(l)["id"] for l in open(os.path.join(VERIF, "properties.jsonl"))]
    commits = subprocess.run(["git", "-C", "/repo", "log", "--format=%H %s"], stdout=subprocess.PIPE, text=True).stdout.splitlines()
    hook_commits = [c.split()[0] for c in commits if c.split(" ", 1)[1].startswith("verif hooks:")]
    checks = []
    for pid in all_ids:
        if pid not in props.PROPS:
            continue
        cfg = props.PROPS[pid]
        t = T.TEXTS[pid]
        checks.append({
            "property_id": pid,
            "quick_cmd": f"./check {pid} --tier quick",
            "thorough_cmd": f"./check {pid} --tier thorough",
            "evidence_file": f"/verif/evidence/{pid}.json",
            "replay_cmd_template": "./check replay {path}",
            "engine": t["engine"],
            "level_claimed": {"category": cfg["level"], "text": t["level_text"], "design_ref": t["design_ref"]},
            "level_note": t["level_note"],
            "technique": t["technique"],
        })
    na = [{"property_id": pid, "reason": T.NOT_APPLICABLE.get(pid, "check not built yet in this commit (see DESIGN.md section 9 for the build order)")} for pid in all_ids if pid not in props.PROPS]
    m = {
        "version": 1,
        "setup_cmd": "./check build",
        "hooks": {
            "guard": "cargo feature xgillard_ddo_verif of the ddo crate",
            "enable": "the harness crate depends on ddo = { path = \"/repo/ddo\", features = [\"xgillard_ddo_verif\"] }; every check runs `cargo build --release --offline` in /verif/harness first, which rebuilds ddo from /repo's working tree",
            "baseline_off_cmd": "cd /repo && cargo test --workspace --no-fail-fast --offline",
            "source_commits": hook_commits,
            "add_only": True,
        },
        "engines": T.ENGINES,
        "checks": checks,
        "notes": T.NOTES,
        "not_applicable": na,
    }
    json.dump(m, open(os.path.join(VERIF, "MANIFEST.json"), "w"), indent=1)
    print(f"MANIFEST.json: {len(checks)} checks, {len(na)} not claimed")

if __name__ == "__main__":
    main()
