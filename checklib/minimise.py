"""Minimisation of replay files: shrink configuration, instance, fault plan and schedule while the same
violation class of the same property persists. Every candidate is executed in a fresh runner process."""
import copy, json, os, time


def _accept(path, prop, cls, replay_file):
    try:
        v = replay_file(path, quiet=True)
    except Exception:
        return False
    if any(x["class"].startswith("harness-") for x in v):
        return False
    return any(prop in x["props"] and x["class"] == cls for x in v)


def _drop_last_layer(sc):
    t = sc["table"]
    if t["n"] <= 1:
        return None
    s = copy.deepcopy(sc)
    t = s["table"]
    n = t["n"]
    v = t["order"][n - 1]
    t["n"] = n - 1
    t["next"] = t["next"][:n - 1]
    t["cost"] = t["cost"][:n - 1]
    t["irrelevant"] = t["irrelevant"][:n - 1]
    t["order"] = [x - 1 if x > v else x for x in t["order"][:n - 1]]
    if t.get("pot"):
        t["pot"] = t["pot"][:n]
    s["primal"] = []
    return s


def _drop_first_layer_candidates(sc):
    return []


def _scenario_candidates(sc):
    """yields (description, candidate scenario) from the most to the least drastic simplification"""
    t = sc["table"]
    c = _drop_last_layer(sc)
    if c:
        yield "drop last layer", c
    for fld, val in (("threads2", None), ("nodup", False), ("dominance", None), ("dom_weaken_per_mille", 0), ("cache_lossy_per_mille", 0), ("cache", False), ("primal", [])):
        if sc.get(fld) != val:
            c = copy.deepcopy(sc)
            c[fld] = val
            yield f"{fld} -> {val}", c
    if sc["threads"] > 1 and sc.get("threads2") is None:
        for nt in range(1, sc["threads"]):
            c = copy.deepcopy(sc)
            c["threads"] = nt
            if isinstance(c["strategy"], dict) and "Forced" in c["strategy"]:
                c["strategy"] = {"Sticky": 4}
            yield f"threads -> {nt}", c
    if isinstance(sc["width"], dict) and "Jitter" in sc["width"]:
        for w in (1, 2, sc["width"]["Jitter"]["max"]):
            c = copy.deepcopy(sc)
            c["width"] = {"Fixed": w}
            yield f"width -> fixed {w}", c
    if sc["dd"] != "Lel":
        c = copy.deepcopy(sc)
        c["dd"] = "Lel"
        yield "dd -> Lel", c
    if t["rub"] != "None":
        c = copy.deepcopy(sc)
        c["table"]["rub"] = "None"
        yield "rub -> none", c
    if t.get("pot"):
        c = copy.deepcopy(sc)
        c["table"]["pot"] = None
        yield "relax potential -> none", c
    if t["order"] != sorted(t["order"]):
        c = copy.deepcopy(sc)
        c["table"]["order"] = sorted(t["order"])
        c["primal"] = []
        yield "variable order -> identity", c
    if t["v0"] != 0:
        c = copy.deepcopy(sc)
        c["table"]["v0"] = 0
        c["primal"] = []
        yield "initial value -> 0", c
    if isinstance(sc["cut"], dict) and "At" in sc["cut"]:
        k = sc["cut"]["At"]
        for kk in sorted({1, k // 2, k - 1}):
            if 1 <= kk < k:
                c = copy.deepcopy(sc)
                c["cut"] = {"At": kk}
                yield f"cutoff at poll {kk}", c
    # arcs and costs
    for l in range(t["n"]):
        for a in range(t["s"]):
            for b in range(t["d"]):
                if t["next"][l][a][b] is not None and not t["irrelevant"][l][a]:
                    c = copy.deepcopy(sc)
                    c["table"]["next"][l][a][b] = None
                    c["primal"] = []
                    yield f"remove arc ({l},{a},{b})", c
    for l in range(t["n"]):
        for a in range(t["s"]):
            for b in range(t["d"]):
                if t["cost"][l][a][b] != 0 and t["next"][l][a][b] is not None:
                    c = copy.deepcopy(sc)
                    c["table"]["cost"][l][a][b] = 0
                    c["primal"] = []
                    yield f"zero cost ({l},{a},{b})", c


def _schedule_to_explicit(forced):
    pre = []
    for i, t in enumerate(forced):
        if i == 0 or forced[i - 1] != t:
            pre.append([i, t])
    return pre


def minimise(path, prop, cls, replay_file, log, budget_s=60):
    t0 = time.time()
    payload = json.load(open(path))
    rp = payload.get("replay") or {}
    if rp.get("kind") not in ("solver", "seq-sweep"):
        from . import minimise_history
        return minimise_history.minimise(path, prop, cls, replay_file, log, budget_s)
    if "scenario" not in rp:
        return None
    tmp = path.replace(".json", ".cand.json")
    best = copy.deepcopy(payload)
    steps = 0

    def try_candidate(sc):
        cand = copy.deepcopy(best)
        cand["replay"]["scenario"] = sc
        cand["replay"].pop("trace_hash", None)
        with open(tmp, "w") as f:
            json.dump(cand, f)
        return cand if _accept(tmp, prop, cls, replay_file) else None

    # the original must reproduce, otherwise nothing to minimise (and the caller reports the original)
    with open(tmp, "w") as f:
        json.dump(best, f)
    if not _accept(tmp, prop, cls, replay_file):
        log("  (the recorded replay did not reproduce in a fresh process: keeping the original file; this is a harness problem)")
        os.remove(tmp)
        return None
    # 1. schedule: forced list -> explicit pre-emption list (robust against later changes of the instance)
    def shrink_schedule():
        nonlocal best, steps
        sc = best["replay"]["scenario"]
        if not (sc.get("parallel") and isinstance(sc["strategy"], dict)):
            return
        if "Forced" in sc["strategy"]:
            pre = _schedule_to_explicit(sc["strategy"]["Forced"])
            c = copy.deepcopy(sc)
            c["strategy"] = {"Explicit": pre}
            got = try_candidate(c)
            if not got:
                return
            best = got
            steps += 1
        elif "Explicit" in sc["strategy"]:
            pre = sc["strategy"]["Explicit"]
        else:
            return
        chunk = max(1, len(pre) // 2)
        while chunk >= 1 and time.time() - t0 < budget_s:
            i = 0
            changed = False
            while i < len(pre) and time.time() - t0 < budget_s:
                cand_pre = pre[:i] + pre[i + chunk:]
                c = copy.deepcopy(best["replay"]["scenario"])
                c["strategy"] = {"Explicit": cand_pre}
                got = try_candidate(c)
                if got:
                    best = got
                    pre = cand_pre
                    changed = True
                    steps += 1
                else:
                    i += chunk
            if chunk == 1 and not changed:
                break
            chunk = chunk // 2 if chunk > 1 else 1
    shrink_schedule()
    progress = True
    while progress and time.time() - t0 < budget_s:
        progress = False
        for desc, sc in _scenario_candidates(best["replay"]["scenario"]):
            if time.time() - t0 > budget_s:
                break
            got = try_candidate(sc)
            if got:
                best = got
                steps += 1
                progress = True
                break
    shrink_schedule()
    if os.path.exists(tmp):
        os.remove(tmp)
    if steps == 0:
        return None
    out = path.replace(".json", ".min.json")
    best["minimised"] = {"steps": steps, "original": os.path.basename(path), "seconds": round(time.time() - t0, 1)}
    # final confirmation in a fresh process
    with open(out, "w") as f:
        json.dump(best, f, indent=1)
    if not _accept(out, prop, cls, replay_file):
        os.remove(out)
        return None
    sc = best["replay"]["scenario"]
    log(f"  minimised in {steps} steps: n={sc['table']['n']} s={sc['table']['s']} threads={sc.get('threads2') or sc['threads']} strategy={str(sc['strategy'])[:120]}")
    return out
