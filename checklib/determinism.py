#!/usr/bin/env python3
"""Determinism proof of the simulator (DESIGN.md section 2.9): for every arm, N seeds x 2 executions, the first
with 1 concurrent process, the second with 16 concurrent processes (machine load changes the physical arrival
order of the worker threads at the hooks); the per-run digests of the FULL outcome (result, bounds, counters,
schedule, scheduler statistics) are diffed. Usage: checklib/determinism.py [runs_per_arm] [seed]"""
import json, os, subprocess, sys, time
from concurrent.futures import ThreadPoolExecutor
VERIF = os.path.dirname(os.path.dirname(os.path.abspath(__file__)))
RUNNER = os.path.join(VERIF, "harness", "target", "release", "runner")
ARMS = ["par-free", "par-free-wide", "par-cutoff", "par-flaky", "par-threads", "par-threads-cutoff", "par-cache", "par-dom", "par-primal", "par-primal-cache", "par-longarc", "par-sweep",
        "par-preempt-sweep", "par-preempt-sweep-cutoff", "seq-free", "seq-sweep", "seq-sweep-nodup", "seq-longarc",
        "dd-history", "dd-history-narrow", "dd-history-longarc", "fringe-history", "store-history", "dom-history"]

def digests(arm, seed, a, b):
    r = subprocess.run([RUNNER, "digest", "--arm", arm, "--seed", str(seed), "--from", str(a), "--to", str(b)], stdout=subprocess.PIPE, stderr=subprocess.DEVNULL, text=True)
    return [l for l in r.stdout.splitlines() if l and l[0].isdigit()]

def main():
    n = int(sys.argv[1]) if len(sys.argv) > 1 else 2000
    seed = int(sys.argv[2]) if len(sys.argv) > 2 else 424242
    subprocess.run(["cargo", "build", "--release", "--offline", "-q"], cwd=os.path.join(VERIF, "harness"), check=True)
    report = {"runs_per_arm": n, "seed": seed, "arms": {}, "divergences": 0}
    t0 = time.time()
    for arm in ARMS:
        chunk = max(1, n // 16)
        ranges = [(i, min(n, i + chunk)) for i in range(0, n, chunk)]
        # pass 1: one process at a time
        one = []
        for (a, b) in ranges:
            one.extend(digests(arm, seed, a, b))
        # pass 2: all chunks at once (loaded machine), plus a parallel distractor of the same arm to add contention
        with ThreadPoolExecutor(max_workers=32) as ex:
            futs = [ex.submit(digests, arm, seed, a, b) for (a, b) in ranges] + [ex.submit(digests, arm, seed + 1, a, b) for (a, b) in ranges]
            many = []
            for f in futs[:len(ranges)]:
                many.extend(f.result())
            for f in futs[len(ranges):]:
                f.result()
        diff = [(x, y) for x, y in zip(one, many) if x != y]
        report["arms"][arm] = {"runs": len(one), "divergences": len(diff) + abs(len(one) - len(many)), "first": diff[:3]}
        report["divergences"] += len(diff) + abs(len(one) - len(many))
        print(f"{arm}: {len(one)} runs x 2 executions, {len(diff)} divergences", flush=True)
    report["wall_s"] = round(time.time() - t0, 1)
    os.makedirs(os.path.join(VERIF, "evidence"), exist_ok=True)
    json.dump(report, open(os.path.join(VERIF, "evidence", "determinism.json"), "w"), indent=1)
    print("TOTAL divergences:", report["divergences"])
    sys.exit(0 if report["divergences"] == 0 else 2)

if __name__ == "__main__":
    main()
