"""Per-property configuration of the checks (which arms, how many runs) and evidence assembly."""

REAL = ["ddo::SequentialSolver", "ddo::ParallelSolver (real OS threads, real parking_lot Mutex/Condvar)", "ddo::Mdd<LEL>, Mdd<FRONTIER>, Pooled",
        "ddo::SimpleFringe, NoDupFringe", "ddo::SimpleCache (DashMap)", "ddo::SimpleDominanceChecker (DashMap)", "ddo::MaxUB ranking"]
STUB = ["TimeBudget timer thread -> SimCutoff (poll counter)", "num_cpus::get() -> explicit thread counts", "user model -> generated table DP with powerset relaxation (family T)"]

RULE_SOLVER = ("cases = (generated table-DP instance, solver configuration, fault plan, schedule), all derived from VERIF_SEED; "
               "non-trivial = the branch-and-bound really branched (>= 2 sub-problems explored); distinct = distinct hash of (instance tables, configuration, schedule trace)")

def A(arm, quick, thorough, **kw):
    d = {"arm": arm, "quick": quick, "thorough": thorough}
    d.update(kw)
    return d

PROPS = {
    "C01": {"level": "exploration", "arms": [A("seq-free", 60000, 3000000), A("seq-depthfree", 20000, 600000)],
            "probes": ["branched(explored>=2)", "infeasible_instance", "negative_optimum", "fault:width_jitter", "fault:rub_slack", "fault:cache_lossy_fired", "fault:dominance_weak_fired", "mon_merge_calls"],
            "rule": RULE_SOLVER},
    "C02": {"level": "exploration", "arms": [A("seq-free", 40000, 1500000), A("par-free", 30000, 1200000), A("par-cutoff", 30000, 1200000), A("seq-sweep", 4000, 150000)],
            "probes": ["branched(explored>=2)", "fault:cutoff_fired", "probe:>=2_workers_compiling_at_once", "infeasible_instance"],
            "rule": RULE_SOLVER},
    "C03": {"level": "exploration", "arms": [A("par-free", 40000, 2500000), A("par-free-wide", 8000, 400000)],
            "probes": ["probe:>=2_workers_compiling_at_once", "probe:worker_parked_and_woken", "probe:multi_wake", "probe:pruned_by_cache_at_pop", "probe:read_threshold_written_by_peer", "fringe_clears", "fault:preemptions"],
            "rule": RULE_SOLVER},
    "C04": {"level": "exploration", "arms": [A("par-free", 30000, 1500000), A("par-cutoff", 40000, 2000000), A("par-flaky", 20000, 800000), A("par-threads", 20000, 800000), A("par-threads-cutoff", 20000, 800000)],
            "probes": ["probe:multi_wake", "probe:abort_with_peer_parked", "probe:abort_with_peer_processing", "fault:thread_count_increase", "fault:cutoff_fired", "probe:worker_parked_and_woken"],
            "rule": RULE_SOLVER + "; violation classes: deadlock (no enabled worker while one is parked), step-bound, worker panic, premature completion"},
    "C05": {"level": "exploration", "arms": [A("par-cutoff", 60000, 3000000), A("par-threads-cutoff", 10000, 400000), A("seq-sweep", 6000, 250000)],
            "probes": ["fault:cutoff_fired", "probe:abort_with_peer_parked", "probe:abort_with_peer_processing", "probe:ub_strictly_decreased_between_consecutive_k", "sweep_executions"],
            "rule": RULE_SOLVER + "; sequential arm: for each sampled (instance, configuration) EVERY cutoff index k in 1..K+1 is executed (K = polls of the uninterrupted run); each (instance, configuration, k) with k <= K counts as one distinct non-trivial case"},
    "C19": {"level": "fault_enumeration", "arms": [A("seq-sweep", 12000, 500000)],
            "probes": ["probe:ub_strictly_decreased_between_consecutive_k", "probe:lb_strictly_increased_between_consecutive_k", "probe:nodup_coalesced_diff_ub", "sweep_executions"],
            "rule": "for each sampled (instance, configuration) the uninterrupted run gives K polls, then EVERY cutoff index k in 1..K+1 is executed and consecutive k are compared; a case = (instance, configuration, k); non-trivial = k <= K (the cutoff really fires); distinct by hash of (tables, configuration, k)",
            "extra_coverage": {"exhaustive_over": "the cutoff index k, per sampled instance (instances themselves are sampled)"}},
}


def evidence(prop, cfg, tier, seed, per_arm, wall, new_violations, known_printed, build_s):
    runs = sum(a["runs"] for a in per_arm.values())
    counters = {}
    distinct = 0
    states = set()
    samples = []
    for arm, a in per_arm.items():
        for k, v in a["counters"].items():
            if k.startswith("max:"):
                counters[k] = max(counters.get(k, 0), v)
            else:
                counters[k] = counters.get(k, 0) + v
        distinct += len(a["distinct"])
        states |= set(a.get("states", ()))
        samples.extend(a["samples"][:3])
    faults = {k[6:]: v for k, v in counters.items() if k.startswith("fault:")}
    probes = {k: v for k, v in counters.items() if k.startswith("probe:")}
    unreached = [p for p in cfg.get("probes", []) if counters.get(p, 0) == 0]
    cov = {
        "evaluations": int(runs + counters.get("sweep_executions", 0)),
        "distinct_nontrivial": distinct,
        "rule": cfg.get("rule", ""),
        "samples": samples[:6] if samples else [{"note": "no sample recorded"}],
        "runs_per_arm": {arm: a["runs"] for arm, a in per_arm.items()},
        "runs_per_hour": int(runs / max(wall - build_s, 1e-3) * 3600),
        "seeds": f"VERIF_SEED={seed}; run i of an arm uses mix(VERIF_SEED, i), i in 0..runs",
        "simulated_steps(scheduling decisions)": counters.get("sched_steps", 0),
        "fault_kinds_fired": faults,
        "reach_probes": probes,
        "unreached_probes": unreached,
        "distinct_abstract_shared_states": len(states),
        "abstract_state_measure": "hash of (#workers processing, #workers parked on the condvar, fringe length capped at 15, abort flag, mutex held, #enabled workers) at every scheduling decision",
        "counters": counters,
        "components_real": cfg.get("real", REAL),
        "components_stubbed": cfg.get("stub", STUB),
        "known_findings_reported": known_printed,
        "exhaustive": False,
    }
    cov.update(cfg.get("extra_coverage", {}))
    return {
        "property_id": prop, "tier": tier, "seed": seed, "level": cfg["level"], "coverage": cov,
        "assumptions": cfg.get("assumptions", [
            "the reference model (backward DP over base states, exhaustive path enumeration) is correct; it shares no code with ddo",
            "engine S pre-empts only at the hooks and wrapped trait calls; code between two such points is atomic for it",
            "woken condvar waiters are modelled as FIFO hand-offs (parking_lot requeue semantics)"]),
        "wall_s": round(wall, 2), "violations": new_violations,
    }
