"""Per-property configuration of the checks (which arms, how many runs) and evidence assembly."""

REAL = ["ddo::SequentialSolver", "ddo::ParallelSolver (real OS threads, real parking_lot Mutex/Condvar)", "ddo::Mdd<LEL>, Mdd<FRONTIER>, Pooled",
        "ddo::SimpleFringe, NoDupFringe", "ddo::SimpleCache (DashMap)", "ddo::SimpleDominanceChecker (DashMap)", "ddo::MaxUB ranking"]
STUB = ["TimeBudget timer thread -> SimCutoff (poll counter)", "num_cpus::get() -> explicit thread counts", "user model -> generated table DP with powerset relaxation (family T)"]

RULE_SOLVER = ("cases = (generated table-DP instance, solver configuration, fault plan, schedule), all derived from VERIF_SEED; "
               "non-trivial = the branch-and-bound really branched (>= 2 sub-problems explored); distinct = distinct hash of (instance tables, configuration, schedule trace)")

RULE_DD = ("cases = (generated instance, diagram implementation, history of 3..7 compile operations on ONE diagram object with roots drawn from the reachable exact sub-problems, "
           "widths 1..5, incumbents in {none, below, at, above optimum}); then one operation of the history is abandoned by the cutoff at EVERY layer j and the rest of the history is re-executed on the same object "
           "(fault enumeration of the crash point); non-trivial = a relaxed or restricted compilation was inexact; distinct = distinct hash of (tables, diagram, operations[, j])")
REAL_DD = ["ddo::Mdd<LEL>::compile, Mdd<FRONTIER>::compile, Pooled::compile, drain_cutset, best_* accessors", "ddo::EmptyCache, EmptyDominanceChecker (compiled 'in isolation')"]
STUB_DD = ["the solver loop (operations are issued by the harness)", "TimeBudget -> SimCutoff", "user model -> family T"]

ALL_EXAMPLES = ["knapsack", "misp", "max2sat", "mcp", "lcs", "golomb", "sop", "tsptw", "srflp", "talentsched", "psp", "alp"]
EXAMPLES_READY = ["knapsack", "misp", "max2sat", "mcp", "golomb", "lcs", "sop", "srflp", "tsptw", "talentsched", "psp", "alp"]

QUICK_SCALE = 3   # quick budgets below were calibrated for 5-20 s per check; scaled up to use 30-60 s

def A(arm, quick, thorough, **kw):
    scale = 1 if (arm.startswith("ext:") or arm.endswith("-enum") or "longarc" in arm or arm.startswith("ex-") or arm == "width-grid") else QUICK_SCALE
    boost = kw.pop("boost", 1) if scale > 1 else (kw.pop("boost", 1) and 1)
    d = {"arm": arm, "quick": min(quick * scale * boost, thorough), "thorough": thorough}
    d.update(kw)
    return d

PROPS = {
    "C01": {"level": "exploration", "arms": [A("seq-large", 15000, 600000), A("seq-free", 60000, 3000000, boost=3), A("seq-depthfree", 20000, 600000, boost=3), A("seq-longarc", 6000, 100000)],
            "probes": ["branched(explored>=2)", "infeasible_instance", "negative_optimum", "fault:width_jitter", "fault:rub_slack", "fault:cache_lossy_fired", "fault:dominance_weak_fired", "mon_merge_calls"],
            "rule": RULE_SOLVER},
    "C02": {"level": "exploration", "arms": [A("seq-large", 8000, 300000), A("seq-free", 40000, 1500000), A("par-free", 30000, 1200000), A("par-cutoff", 30000, 1200000), A("seq-sweep", 4000, 150000)],
            "probes": ["branched(explored>=2)", "fault:cutoff_fired", "probe:>=2_workers_compiling_at_once", "infeasible_instance"],
            "rule": RULE_SOLVER},
    "C03": {"level": "exploration", "arms": [A("par-large", 2000, 150000), A("par-free", 40000, 2500000), A("par-free-wide", 8000, 400000), A("par-preempt-sweep", 600, 40000), A("par-longarc", 8000, 60000)],
            "probes": ["probe:>=2_workers_compiling_at_once", "probe:worker_parked_and_woken", "probe:multi_wake", "probe:pruned_by_cache_at_pop", "probe:read_threshold_written_by_peer", "fringe_clears", "fault:preemptions"],
            "rule": RULE_SOLVER},
    "C04": {"level": "exploration", "arms": [A("par-free", 30000, 1500000), A("par-cutoff", 40000, 2000000), A("par-flaky", 20000, 800000), A("par-threads", 20000, 800000), A("par-threads-cutoff", 20000, 800000), A("par-preempt-sweep-cutoff", 600, 30000), A("par-sweep", 1000, 50000), A("par-longarc", 6000, 50000), A("ext:miri-solver", 0, 320, reps=6)],
            "probes": ["probe:multi_wake", "probe:abort_with_peer_parked", "probe:abort_with_peer_processing", "fault:thread_count_increase", "fault:cutoff_fired", "probe:worker_parked_and_woken"],
            "rule": RULE_SOLVER + "; violation classes: deadlock (no enabled worker while one is parked), step-bound, worker panic, premature completion"},
    "C05": {"level": "exploration", "arms": [A("par-large-cutoff", 4000, 200000), A("par-cutoff", 60000, 3000000), A("par-preempt-sweep-cutoff", 600, 30000), A("par-sweep", 1500, 60000), A("par-threads-cutoff", 10000, 400000), A("seq-sweep", 6000, 250000), A("seq-sweep-nodup", 6000, 300000)],
            "probes": ["fault:cutoff_fired", "probe:abort_with_peer_parked", "probe:abort_with_peer_processing", "probe:ub_strictly_decreased_between_consecutive_k", "sweep_executions"],
            "rule": RULE_SOLVER + "; sequential arm: for each sampled (instance, configuration) EVERY cutoff index k in 1..K+1 is executed (K = polls of the uninterrupted run); each (instance, configuration, k) with k <= K counts as one distinct non-trivial case"},
    "C06": {"level": "fault_enumeration", "arms": [A("dd-history", 30000, 1200000, boost=3), A("dd-history-narrow", 30000, 1200000, boost=3), A("dd-history-depthfree", 10000, 400000, boost=3), A("dd-history-longarc", 10000, 400000)],
            "probes": ["probe:relaxed_inexact", "probe:relaxed_exact", "probe:merged_state_equal_to_a_kept_node(recycled)", "probe:exact_best_path_claim_with_merges_present", "probe:infeasible_subproblem", "probe:incumbent_at_or_above_optimum", "fault:reuse_after_abort"],
            "rule": RULE_DD, "real": REAL_DD, "stub": STUB_DD},
    "C07": {"level": "fault_enumeration", "arms": [A("dd-history", 30000, 1200000, boost=3), A("dd-history-narrow", 30000, 1200000, boost=3), A("dd-history-depthfree", 10000, 400000, boost=3), A("dd-history-longarc", 10000, 400000)],
            "probes": ["probe:restricted_inexact(layer truncated)", "compilations_exact_mode", "probe:infeasible_subproblem", "fault:reuse_after_abort"],
            "rule": RULE_DD, "real": REAL_DD, "stub": STUB_DD},
    "C08": {"level": "fault_enumeration", "arms": [A("dd-history", 30000, 1200000, boost=3), A("dd-history-narrow", 30000, 1200000, boost=3), A("dd-history-depthfree", 10000, 400000, boost=3), A("dd-history-longarc", 15000, 600000)],
            "probes": ["probe:relaxed_inexact", "cutset_nodes_checked", "completions_checked_for_coverage", "probe:frontier_cutset_spanning_>=2_layers", "fault:reuse_after_abort"],
            "rule": RULE_DD, "real": REAL_DD, "stub": STUB_DD},
    "C09": {"level": "exploration", "arms": [A("par-large-cache", 2000, 100000), A("seq-large-cache", 8000, 300000), A("par-cache", 40000, 2000000), A("seq-cache", 40000, 1500000), A("par-free", 10000, 500000), A("seq-depthfree", 10000, 400000), A("dd-history", 20000, 800000, boost=3), A("dd-history-narrow", 20000, 800000, boost=3), A("dd-history-depthfree", 8000, 300000, boost=3)],
            "probes": ["probe:cache_hit", "probe:pruned_by_cache_at_pop", "probe:read_threshold_written_by_peer", "cache_clear_layers", "strategy:cache_biased", "thresholds_checked", "probe:published_threshold_equals_largest_sound_one", "live_thresholds_checked"],
            "rule": RULE_SOLVER + "; instances with heavy re-convergence (1-3 base states per layer); no lossy-cache fault in the cache arms (the real cache must be the one answering). Threshold level (dd-history arms): every threshold a completed compilation publishes to the cache is compared with the LARGEST SOUND threshold of that (state, depth), computed by a backward DP over the reference tables from the incumbent and the sub-problems handed out by the cut-set. Solver arms with a live cache (no dominance rule, no long arcs): every threshold published during the run is compared at the end with the largest threshold that can be sound at all (final optimum as incumbent, every sub-problem ever pushed on the fringe as covered)"},
    "C10": {"level": "exploration", "arms": [A("dom-enum", 1195740, 10761678, enum_len={"quick": 4, "thorough": 5}, samples=1), A("dom-history", 40000, 2000000), A("seq-dom", 30000, 1200000), A("par-dom", 30000, 1200000)],
            "probes": ["probe:dominated_verdict", "probe:equal_state_re_presented", "probe:recorded_entry_dropped_by_later_dominating_state", "threshold_soundness_probes", "comparator_pairs_checked", "probe:dominance_pruned_node"],
            "rule": "checker semantics: generated histories of is_dominated_or_insert / clear_layer over small alphabets (<= 2 keys + keyless, <= 3 coordinates in 0..2, values 0..3, 2 depths) compared step by step with a reference Pareto front; threshold soundness re-checked against fresh real checkers; distinct = distinct (use_value, history). Solver level: " + RULE_SOLVER},
    "C11": {"level": "exploration", "arms": [A("fringe-enum", 222300, 4001436, enum_len={"quick": 4, "thorough": 5}, samples=1), A("fringe-history", 60000, 3000000, boost=3), A("seq-depthfree-nodup", 20000, 800000, boost=3), A("par-free", 10000, 400000), A("seq-sweep-nodup", 2000, 150000)],
            "probes": ["probe:coalesced", "probe:coalesced_with_different_ub", "fringe_clears", "fringe_pops"],
            "rule": "generated push/pop/clear histories (length 4..43, <= 4 states x <= 3 depths x values 0..4 x ubs 0..5) on SimpleFringe and NoDupFringe with MaxUB against a reference multiset keyed by (state, depth), every operation compared, final drain; distinct = distinct (fringe kind, history); plus in-situ reference multiset inside solver runs with depth-free states"},
    "C12": {"level": "exploration", "arms": [A("dd-history", 20000, 800000, boost=3), A("dd-history-narrow", 20000, 800000, boost=3), A("dd-history-longarc", 6000, 200000), A("seq-free", 20000, 800000, boost=3), A("par-free", 15000, 600000), A("par-cutoff", 10000, 400000), A("seq-longarc", 3000, 150000)],
            "probes": ["mon_relax_calls", "mon_merge_calls", "mon_tc_calls", "mon_domain_calls", "mon_nextvar_calls", "fault:reuse_after_abort", "fault:cutoff_fired"],
            "rule": "every call of transition_cost / relax / merge / for_each_in_domain / next_variable made by the library during the runs is checked online by recording wrappers, per worker; cases = runs; non-trivial = at least one merge happened / the search branched"},
    "C13": {"level": "exploration", "arms": [A("dd-history", 20000, 800000, boost=3), A("dd-history-narrow", 20000, 800000, boost=3), A("seq-free", 20000, 800000, boost=3), A("par-free", 15000, 600000), A("width-grid", 3000, 30000)],
            "probes": ["mon_layers_checked", "mon_layers_at_width"],
            "rule": "number of for_each_in_domain calls between two next_variable calls on one worker, compared with the width in force, for every bounded layer of every restricted / relaxed compilation of all-relevant models; the combinator clause (Times, DivBy never yield 0) is a pure function evaluated on a grid inside the same check and is not a simulation result"},
    "C14": {"level": "exploration", "arms": [A("seq-primal", 40000, 1500000), A("par-primal", 40000, 1500000), A("seq-primal-cache", 80000, 1500000), A("par-primal-cache", 40000, 1000000)],
            "probes": ["fault:primal_seed", "primal_equals_optimum", "probe:>=2_workers_compiling_at_once"],
            "rule": RULE_SOLVER + "; before maximize() one or two set_primal calls with witnesses of the reference model (optimum, optimum - 1, optimum - d, random feasible)"},
    "C15": {"level": "exploration", "arms": [A("seq-longarc", 8000, 120000), A("par-longarc", 4000, 40000), A("seq-longarc-plain", 4000, 60000)],
            "probes": ["branched(explored>=2)", "probe:>=2_workers_compiling_at_once"],
            "rule": RULE_SOLVER + "; depth-free table models with random irrelevance patterns (an irrelevant (layer, state) has the single neutral decision: stay, cost 0); pooled solvers vs plain-diagram solvers vs reference"},
    "C16": {"level": "exploration", "arms": [A("ex-" + n, 5000, 40000, samples=1) for n in EXAMPLES_READY],
            "probes": ["example_runs:" + n for n in EXAMPLES_READY] + ["probe:>=2_workers_compiling_at_once", "width:default", "threads:4"],
            "rule": "one case = (random small instance written in the example's own file format, width in {1,2,3,default}, threads in {1,2,4}, scheduler seed); the REAL example program (its main(), CLI parsing, reader, model, solver wiring, printing; built from /repo/ddo/examples/<name>/ by harness/exrun/build.rs) runs as a child process under the deterministic scheduler and the number on its `Objective:` line is compared with an independent brute-force enumeration; non-trivial: every case counts; distinct = distinct (instance file, width, threads, schedule trace)",
            "real": ["the example programs themselves: main(), clap CLI, instance readers, DP models, relaxations, rankings, dominance rules, width heuristics (harness/exrun builds them from /repo's working tree)", "ddo solvers, diagrams, fringes, cache, dominance stores; real OS threads under engine S (lock/condvar/thread hooks)"],
            "stub": ["TimeBudget is never armed (no time limit is passed)", "no yield points inside Cache / Dominance / Cutoff calls for the examples (they use ddo's own objects directly): scheduling points are the mutex, condvar and thread hooks only"],
            "extra_coverage": {"examples_covered": EXAMPLES_READY, "examples_not_covered": [n for n in ALL_EXAMPLES if n not in EXAMPLES_READY]}},
    "C18": {"level": "exploration", "arms": [A("store-enum", 292560, 6728903, enum_len={"quick": 4, "thorough": 5}, samples=1), A("store-history", 60000, 3000000), A("dom-history", 30000, 1200000), A("ext:miri-cache", 16, 640, reps=20), A("ext:miri-dom", 16, 640, reps=20)],
            "probes": ["probe:get_hit", "cache_clear_layers", "cache_clears", "probe:dominated_verdict", "probe:overlapping_updates_same_key", "probe:get_overlapping_update", "probe:overlapping_check_and_insert_same_key"],
            "real": ["ddo::SimpleCache, ddo::SimpleDominanceChecker", "dashmap 5.5 (shard RwLocks) and parking_lot_core, interpreted by Miri", "std::thread (Miri's seeded scheduler decides every pre-emption)"],
            "stub": ["nothing is stubbed in the concurrent arm; the workload (2..3 threads x 2..4 operations on 1..2 keys) is generated from the workload seed"],
            "rule": "concurrent half (engine M): one Miri execution = one (workload seed, Miri seed, pre-emption rate) triple running 20 generated workloads of 2..3 real threads x 2..4 operations on 1..2 keys; every operation stamped with invoke/return values of a global SeqCst counter; the recorded history is checked for linearizability against the sequential specification by exhaustive search, plus no-lost-update and monotone-read checks; non-trivial = operations on the same key overlapped in (invoke, return) time. sequential specification: generated histories of update/get/clear_layer/clear/must_explore (<= 3 states x 4 depths x values -2..3 x explored) against a BTreeMap reference, and the dominance histories of C10; distinct = distinct history"},
    "C19": {"level": "fault_enumeration", "arms": [A("seq-sweep", 12000, 500000), A("seq-sweep-nodup", 10000, 300000)],
            "probes": ["probe:ub_strictly_decreased_between_consecutive_k", "probe:lb_strictly_increased_between_consecutive_k", "probe:nodup_coalesced_diff_ub", "sweep_executions"],
            "rule": "for each sampled (instance, configuration) the uninterrupted run gives K polls, then EVERY cutoff index k in 1..K+1 is executed and consecutive k are compared; a case = (instance, configuration, k); non-trivial = k <= K (the cutoff really fires); distinct by hash of (tables, configuration, k)",
            "extra_coverage": {"exhaustive_over": "the cutoff index k, per sampled instance (instances themselves are sampled)"}},
}


def evidence(prop, cfg, tier, seed, per_arm, wall, new_violations, known_printed, build_s):
    runs = sum(a["runs"] for a in per_arm.values())
    counters = {}
    distinct = 0
    states = set()
    samples = []
    for arm, a in per_arm.items():
        for k, v in a["counters"].items():
            if k.startswith("max:"):
                counters[k] = max(counters.get(k, 0), v)
            else:
                counters[k] = counters.get(k, 0) + v
        distinct += len(a["distinct"])
        states |= set(a.get("states", ()))
        samples.extend(a["samples"][:3])
    faults = {k[6:]: v for k, v in counters.items() if k.startswith("fault:")}
    probes = {k: v for k, v in counters.items() if k.startswith("probe:")}
    unreached = [p for p in cfg.get("probes", []) if counters.get(p, 0) == 0]
    cov = {
        "evaluations": int(runs + counters.get("sweep_executions", 0)),
        "distinct_nontrivial": distinct,
        "rule": cfg.get("rule", ""),
        "samples": samples[:6] if samples else [{"note": "no sample recorded"}],
        "runs_per_arm": {arm: a["runs"] for arm, a in per_arm.items()},
        "runs_per_hour": int(runs / max(wall - build_s, 1e-3) * 3600),
        "seeds": f"VERIF_SEED={seed}; run i of an arm uses mix(VERIF_SEED, i), i in 0..runs",
        "simulated_steps(scheduling decisions)": counters.get("sched_steps", 0),
        "fault_kinds_fired": faults,
        "reach_probes": probes,
        "unreached_probes": unreached,
        "distinct_abstract_shared_states": len(states),
        "abstract_state_measure": "hash of (#workers processing, #workers parked on the condvar, fringe length capped at 15, abort flag, mutex held, #enabled workers) at every scheduling decision",
        "counters": counters,
        "components_real": cfg.get("real", REAL),
        "components_stubbed": cfg.get("stub", STUB),
        "known_findings_reported": known_printed,
        "exhaustive": False,
    }
    enum_arms = [a for a in per_arm if a.endswith("-enum")]
    if enum_arms:
        cov["bounded_exhaustive_arms"] = {a: f"every operation history up to the configured length over the tiny alphabet was executed exactly once ({per_arm[a]['runs']} histories); enumeration, not seeded search" for a in enum_arms}
    cov.update(cfg.get("extra_coverage", {}))
    return {
        "property_id": prop, "tier": tier, "seed": seed, "level": cfg["level"], "coverage": cov,
        "assumptions": cfg.get("assumptions", [
            "the reference model (backward DP over base states, exhaustive path enumeration) is correct; it shares no code with ddo",
            "engine S pre-empts only at the hooks and wrapped trait calls; code between two such points is atomic for it",
            "woken condvar waiters are modelled as FIFO hand-offs (parking_lot requeue semantics)"]),
        "wall_s": round(wall, 2), "violations": new_violations,
    }
