"""Texts that go into MANIFEST.json, per property."""
ENGINES = [
    {"name": "S - hook scheduler", "path": "harness/ddosim/src/sched.rs", "serves_properties": ["C02", "C03", "C04", "C05", "C09", "C10", "C14", "C15"],
     "kind_free_text": "deterministic simulation: real OS threads of ParallelSolver parked and released one at a time at add-only hooks (mutex, condvar, thread start/exit) and at wrapped trait calls (Cache, DominanceChecker, Cutoff, WidthHeuristic); one seeded PRNG picks who runs and when the cutoff fires"},
    {"name": "Q - sequential fault sweep", "path": "harness/ddosim/src/arms.rs, harness/ddosim/src/history.rs", "serves_properties": ["C01", "C02", "C05", "C06", "C07", "C08", "C09", "C10", "C11", "C12", "C13", "C14", "C15", "C18", "C19"],
     "kind_free_text": "seeded generation of instances, configurations and operation histories; the cutoff is fired at every poll index k of each sampled instance; diagram objects are re-used after a compilation abandoned at every layer; per-call environment perturbation through the trait seams"},
]
NOTES = "Driver: ./check <ID> [--tier quick|thorough] [--seed N]; VERIF_SEED and VERIF_TIER are honoured. Exit 2 = harness error (never reported as VIOLATION). Known findings: known_findings.json. See DESIGN.md."
NOT_APPLICABLE = {
    "C17": "gap() is a pure function of two integers: no schedule, clock, fault, history or shared state enters it, so deterministic simulation has nothing to decide (DESIGN.md section 4)",
    "C20": "as_graphviz is a pure function of an already compiled diagram and a configuration; no interleaving, fault or history is involved and no seam exposes the private arcs needed for a faithfulness oracle (DESIGN.md section 4)",
}
SOLVER_NOTE = "trusted: the reference model (backward DP + exhaustive enumeration over the generated tables), the harness scheduler's model of parking_lot's mutex/condvar (FIFO hand-off of requeued waiters); sampled, not exhaustive; instances are tiny (n <= 8 layers, <= 6 base states)"
TEXTS = {
    "C01": {"engine": "Q", "design_ref": "3/C01", "technique": "deterministic simulation (seeded sequential runs with per-call environment perturbation through trait seams) against an exact reference model",
            "level_text": "seeded exploration of (instance, configuration, perturbation) triples for the sequential solver; every run compared with the exact optimum of a reference model. Weakest fit of the technique (no schedule in the property); claimed because the perturbation seams reach per-sub-problem variation a static matrix does not.",
            "level_note": SOLVER_NOTE},
    "C03": {"engine": "S", "design_ref": "3/C03", "technique": "deterministic simulation: seeded scheduler over the real threads of ParallelSolver (random, sticky, PCT, starvation, round-robin strategies), oracle = exact reference model",
            "level_text": "seeded search over schedules x instances x configurations of the real parallel solver (1..8 workers); every run is one exactly repeatable interleaving; the result is compared with the reference optimum. A clean batch is evidence, not proof.",
            "level_note": SOLVER_NOTE},
}
