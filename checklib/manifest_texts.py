"""Texts that go into MANIFEST.json, per property."""
ENGINES = [
    {"name": "S - hook scheduler", "path": "harness/ddosim/src/sched.rs", "serves_properties": ["C02", "C03", "C04", "C05", "C09", "C10", "C14", "C15"],
     "kind_free_text": "deterministic simulation: real OS threads of ParallelSolver parked and released one at a time at add-only hooks (mutex, condvar, thread start/exit) and at wrapped trait calls (Cache, DominanceChecker, Cutoff, WidthHeuristic); one seeded PRNG picks who runs and when the cutoff fires"},
    {"name": "Q - sequential fault sweep", "path": "harness/ddosim/src/arms.rs, harness/ddosim/src/history.rs", "serves_properties": ["C01", "C02", "C05", "C06", "C07", "C08", "C09", "C10", "C11", "C12", "C13", "C14", "C15", "C18", "C19"],
     "kind_free_text": "seeded generation of instances, configurations and operation histories; the cutoff is fired at every poll index k of each sampled instance; diagram objects are re-used after a compilation abandoned at every layer; per-call environment perturbation through the trait seams"},
]
NOTES = "Driver: ./check <ID> [--tier quick|thorough] [--seed N]; VERIF_SEED and VERIF_TIER are honoured. Exit 2 = harness error (never reported as VIOLATION). Known findings: known_findings.json. See DESIGN.md."
NOT_APPLICABLE = {
    "C17": "gap() is a pure function of two integers: no schedule, clock, fault, history or shared state enters it, so deterministic simulation has nothing to decide (DESIGN.md section 4)",
    "C20": "as_graphviz is a pure function of an already compiled diagram and a configuration; no interleaving, fault or history is involved and no seam exposes the private arcs needed for a faithfulness oracle (DESIGN.md section 4)",
}
SOLVER_NOTE = "trusted: the reference model (backward DP + exhaustive enumeration over the generated tables), the harness scheduler's model of parking_lot's mutex/condvar (FIFO hand-off of requeued waiters); sampled, not exhaustive; instances are tiny (n <= 8 layers, <= 6 base states)"
TEXTS = {
    "C01": {"engine": "Q", "design_ref": "3/C01", "technique": "deterministic simulation (seeded sequential runs with per-call environment perturbation through trait seams) against an exact reference model",
            "level_text": "seeded exploration of (instance, configuration, perturbation) triples for the sequential solver; every run compared with the exact optimum of a reference model. Weakest fit of the technique (no schedule in the property); claimed because the perturbation seams reach per-sub-problem variation a static matrix does not.",
            "level_note": SOLVER_NOTE},
    "C02": {"engine": "S+Q", "design_ref": "3/C02", "technique": "deterministic simulation: every solver run of the C01/C03/C05 arms (all schedules, all cutoff points) is followed by a replay of the reported solution through the reference model",
            "level_text": "piggy-backs on the sequential, parallel and cutoff arms: after each maximize() the reported solution is replayed through the reference tables (domain membership, exact value), and value/solution/bounds/Completion coherence is checked.",
            "level_note": SOLVER_NOTE},
    "C03": {"engine": "S", "design_ref": "3/C03", "technique": "deterministic simulation: seeded scheduler over the real threads of ParallelSolver (random, sticky, PCT, starvation, round-robin strategies), oracle = exact reference model",
            "level_text": "seeded search over schedules x instances x configurations of the real parallel solver (1..8 workers); every run is one exactly repeatable interleaving; the result is compared with the reference optimum. A clean batch is evidence, not proof.",
            "level_note": SOLVER_NOTE},
    "C04": {"engine": "S", "design_ref": "3/C04", "technique": "deterministic simulation with fault injection: seeded scheduler over the real worker threads, cutoff fired at a PRNG-chosen poll (persistent or flaky), thread count changed after construction; deadlock = no enabled worker while one is parked; bounded liveness by a scheduling step budget",
            "level_text": "seeded search over schedules x thread counts (1..8, including counts changed through with_nb_threads) x cutoff points; the scheduler's own model of the mutex and condvar detects lost wake-ups as 'no enabled worker'; a step bound turns livelock into a violation; worker panics and premature completion are observed at the thread-exit hook.",
            "level_note": SOLVER_NOTE + "; liveness is bounded: 'returns within 400000 scheduling steps'"},
    "C05": {"engine": "S+Q", "design_ref": "3/C05", "technique": "deterministic simulation with fault injection: the cutoff starts answering stop at poll k; sequential: every k of each sampled instance (fault enumeration); parallel: k and the schedule both drawn from the seeded PRNG",
            "level_text": "sequential solver: complete sweep of the crash point (cutoff index) per sampled instance/configuration; parallel solver: seeded exploration of (schedule, k). Oracle: lb <= optimum <= ub from the reference model, solution feasible with value = lb, is_exact only if optimal.",
            "level_note": SOLVER_NOTE},
    "C19": {"engine": "Q", "design_ref": "3/C19", "technique": "fault enumeration inside a deterministic simulation: the sequential solver is re-executed with the cutoff firing at every poll index k = 1..K+1 and consecutive k are compared",
            "level_text": "for every sampled (instance, configuration) the whole range of crash points is enumerated; monotonicity of lb/ub in k and eventual exactness are checked on the complete series. Instances and configurations are sampled.",
            "level_note": SOLVER_NOTE},
}
