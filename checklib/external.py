"""External engines driven by the check script: engine M (Miri, seeded scheduling inside DashMap / parking_lot)."""
import json, os, re, subprocess, time, hashlib
from concurrent.futures import ThreadPoolExecutor

VERIF = os.path.dirname(os.path.dirname(os.path.abspath(__file__)))
MIRI_DIR = os.path.join(VERIF, "harness", "miri_stores")
NPROC = int(os.environ.get("VERIF_JOBS", "16"))
RATES = ["0.02", "0.1", "0.3"]


def _env(miri_seed, rate):
    e = dict(os.environ, CARGO_NET_OFFLINE="true")
    e["MIRIFLAGS"] = f"-Zmiri-seed={miri_seed} -Zmiri-preemption-rate={rate}"
    return e


def miri_build():
    """builds the engine-M binary (and ddo) for Miri; returns (ok, text)"""
    r = subprocess.run(["cargo", "+nightly", "miri", "run", "--offline", "-q", "--", "cache", "0", "0"], cwd=MIRI_DIR, env=_env(0, "0.1"),
                       stdout=subprocess.PIPE, stderr=subprocess.STDOUT, text=True)
    return r.returncode == 0, r.stdout[-3000:]


def _one(prog, workload_seed, reps, miri_seed, rate, timeout):
    t = time.time()
    try:
        r = subprocess.run(["cargo", "+nightly", "miri", "run", "--offline", "-q", "--", prog, str(workload_seed), str(reps)], cwd=MIRI_DIR, env=_env(miri_seed, rate),
                           stdout=subprocess.PIPE, stderr=subprocess.STDOUT, text=True, timeout=timeout)
        out, rc = r.stdout, r.returncode
    except subprocess.TimeoutExpired as e:
        out, rc = (e.stdout or b"").decode(errors="replace") if isinstance(e.stdout, bytes) else (e.stdout or ""), -9
    return {"prog": prog, "workload_seed": workload_seed, "reps": reps, "miri_seed": miri_seed, "rate": rate, "rc": rc, "out": out, "secs": time.time() - t}


def _classify(res, props_for):
    """returns (ok_lines, violation or None, harness_error or None)"""
    oks = [l for l in res["out"].splitlines() if l.startswith("MIRI-OK")]
    payload = {"kind": "miri", "prog": res["prog"], "workload_seed": res["workload_seed"], "reps": res["reps"], "miri_seed": res["miri_seed"], "rate": res["rate"]}
    if res["rc"] == 0:
        return oks, None, None
    m = re.search(r"^MIRI-VIOLATION (.*)$", res["out"], re.M)
    if m:
        cls = "not-linearizable" if "not linearizable" in m.group(1) else ("lost-update" if "lost" in m.group(1) else ("threshold-decreased" if "decrease" in m.group(1) else "miri-oracle"))
        return oks, {"props": props_for, "class": cls, "msg": m.group(1)[:1500], "payload": payload}, None
    if "Data race detected" in res["out"] or "Undefined Behavior" in res["out"]:
        tail = res["out"][res["out"].find("error"):][:1200]
        return oks, {"props": props_for, "class": "miri-undefined-behaviour", "msg": tail, "payload": payload}, None
    if "deadlock" in res["out"].lower():
        return oks, {"props": ["C04"] if res["prog"] == "solver" else props_for, "class": "miri-deadlock", "msg": res["out"][-800:], "payload": payload}, None
    if res["rc"] == -9:
        if res["prog"] == "solver":
            return oks, {"props": ["C04"], "class": "miri-no-return", "msg": "the parallel solver did not return under Miri within the time limit", "payload": payload}, None
        return oks, None, {"class": "miri-timeout", "msg": f"miri run timed out: {payload}"}
    return oks, None, {"class": "miri-failed", "msg": f"cargo miri run failed (rc {res['rc']}): {res['out'][-1200:]}"}


def run(name, prop, tier, seed, arm_cfg):
    """name: miri-cache | miri-dom | miri-solver. Returns (violation records, agg, harness errors) in the driver's format."""
    prog = name.split("-", 1)[1]
    props_for = {"cache": ["C18"], "dom": ["C18", "C10"], "solver": ["C04", "C05"]}[prog]
    ok, txt = miri_build()
    agg = {"runs": 0, "counters": {}, "samples": [], "distinct": set(), "states": set()}
    if not ok:
        return [], agg, [{"arm": name, "seed": seed, "run": -1, "violations": [{"props": [], "class": "miri-build", "msg": txt}], "replay": None}]
    n_exec = arm_cfg[tier]            # number of Miri executions (each = one Miri seed)
    reps = arm_cfg.get("reps", 25)    # workloads per execution
    jobs = []
    for i in range(n_exec):
        jobs.append((prog, (seed * 7919 + i) % (2 ** 31), reps, (seed + 31 * i) % (2 ** 31), RATES[i % len(RATES)]))
    viols, herrs = [], []
    with ThreadPoolExecutor(max_workers=NPROC) as ex:
        results = list(ex.map(lambda j: _one(*j, timeout=arm_cfg.get("timeout", 900)), jobs))
    for res in results:
        oks, v, h = _classify(res, props_for)
        agg["runs"] += len(oks)
        c = agg["counters"]
        c["miri_executions(seeds)"] = c.get("miri_executions(seeds)", 0) + 1
        c[f"fault:miri_preemption_rate_{res['rate']}"] = c.get(f"fault:miri_preemption_rate_{res['rate']}", 0) + 1
        for l in oks:
            try:
                j = json.loads(l[l.index("{"):])
            except Exception:
                continue
            for k, val in j.items():
                if isinstance(val, bool):
                    key = f"probe:{k}"
                    c[key] = c.get(key, 0) + (1 if val else 0)
                    if val:
                        agg["distinct"].add(int(hashlib.sha1(f"{res['prog']}|{res['miri_seed']}|{res['rate']}|{l.split()[1]}".encode()).hexdigest()[:15], 16))
            if len(agg["samples"]) < 2 and "history" in j:
                agg["samples"].append({"arm": name, "miri_seed": res["miri_seed"], "preemption_rate": res["rate"], "workload": l.split()[1], "history(thread, invoke, return, op, result)": j["history"][:1200]})
        if v:
            payload = v.pop("payload")
            viols.append({"arm": name, "seed": res["workload_seed"], "run": res["miri_seed"], "violations": [v], "replay": payload})
        if h:
            herrs.append({"arm": name, "seed": seed, "run": -1, "violations": [{"props": [], "class": h["class"], "msg": h["msg"]}], "replay": None})
    return viols, agg, herrs


def replay(payload):
    """re-executes a Miri replay payload; returns list of violations (driver format)"""
    res = _one(payload["prog"], payload["workload_seed"], payload["reps"], payload["miri_seed"], payload["rate"], 1800)
    props_for = {"cache": ["C18"], "dom": ["C18", "C10"], "solver": ["C04", "C05"]}[payload["prog"]]
    _, v, h = _classify(res, props_for)
    out = []
    if v:
        v.pop("payload", None)
        out.append(v)
    if h:
        out.append({"props": [], "class": "harness-" + h["class"], "msg": h["msg"]})
    return out
