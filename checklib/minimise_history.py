"""Minimisation of history-arm replay files (operation lists): drop operations while the violation persists."""
import copy, json, os, time


def minimise(path, prop, cls, replay_file, log, budget_s=60):
    t0 = time.time()
    payload = json.load(open(path))
    rp = payload.get("replay") or {}
    ops_key = "ops" if "ops" in rp else None
    if ops_key is None:
        return None
    tmp = path.replace(".json", ".cand.json")

    def accept(p):
        try:
            v = replay_file(p, quiet=True)
        except Exception:
            return False
        return any(prop in x["props"] and x["class"] == cls for x in v)

    best = copy.deepcopy(payload)
    with open(tmp, "w") as f:
        json.dump(best, f)
    if not accept(tmp):
        os.remove(tmp)
        return None
    steps = 0
    ops = best["replay"][ops_key]
    chunk = max(1, len(ops) // 2)
    while chunk >= 1 and time.time() - t0 < budget_s:
        i = 0
        changed = False
        while i < len(ops) and time.time() - t0 < budget_s:
            cand_ops = ops[:i] + ops[i + chunk:]
            cand = copy.deepcopy(best)
            cand["replay"][ops_key] = cand_ops
            with open(tmp, "w") as f:
                json.dump(cand, f)
            if cand_ops and accept(tmp):
                best, ops, changed = cand, cand_ops, True
                steps += 1
            else:
                i += chunk
        if chunk == 1 and not changed:
            break
        chunk = chunk // 2 if chunk > 1 else 1
    if os.path.exists(tmp):
        os.remove(tmp)
    if steps == 0:
        return None
    out = path.replace(".json", ".min.json")
    best["minimised"] = {"steps": steps, "original": os.path.basename(path)}
    with open(out, "w") as f:
        json.dump(best, f, indent=1)
    if not accept(out):
        os.remove(out)
        return None
    log(f"  minimised history to {len(ops)} operations")
    return out
