//! Engine M: a small program run under Miri (`cargo +nightly miri run`), whose thread scheduler is driven by
//! -Zmiri-seed. 2..4 real threads perform a few operations each on few keys of ONE SimpleCache /
//! SimpleDominanceChecker; Miri pre-empts inside DashMap / parking_lot where the hook scheduler has no seam.
//! Every operation is stamped with invoke / return values of one global SeqCst counter; afterwards the recorded
//! history is checked for linearizability against the sequential specification (exhaustive search), plus
//! final-state and monotonicity checks. argv: <kind: cache|dom|solver> <workload seed>
use std::sync::atomic::{AtomicUsize, Ordering};
use std::sync::Arc;

use ddo::*;

struct Rng(u64);
impl Rng {
    fn next(&mut self) -> u64 { self.0 = self.0.wrapping_add(0x9E3779B97F4A7C15); let mut z = self.0; z = (z ^ (z >> 30)).wrapping_mul(0xBF58476D1CE4E5B9); z = (z ^ (z >> 27)).wrapping_mul(0x94D049BB133111EB); z ^ (z >> 31) }
    fn below(&mut self, n: usize) -> usize { (self.next() % n as u64) as usize }
}

static CLOCK: AtomicUsize = AtomicUsize::new(0);
fn tick() -> usize { CLOCK.fetch_add(1, Ordering::SeqCst) }

// ------------------------------------------------------------------------------------------------ cache
#[derive(Debug, Clone, Copy, PartialEq, Eq)]
enum COp { Update { key: u8, value: isize, explored: bool }, Get { key: u8 } }
#[derive(Debug, Clone)]
struct CEvent { thread: usize, inv: usize, ret: usize, op: COp, result: Option<(isize, bool)> }

struct DummyPb;
impl Problem for DummyPb {
    type State = u8;
    fn nb_variables(&self) -> usize { 1 }
    fn initial_state(&self) -> u8 { 0 }
    fn initial_value(&self) -> isize { 0 }
    fn transition(&self, s: &u8, _: Decision) -> u8 { *s }
    fn transition_cost(&self, _: &u8, _: &u8, _: Decision) -> isize { 0 }
    fn next_variable(&self, _: usize, _: &mut dyn Iterator<Item = &u8>) -> Option<Variable> { None }
    fn for_each_in_domain(&self, _: Variable, _: &u8, _: &mut dyn DecisionCallback) {}
}

/// sequential specification of the cache on one layer: map key -> max (value, explored)
fn lin_cache(events: &[CEvent], done: &mut Vec<bool>, state: &mut [Option<(isize, bool)>; 4], remaining: usize) -> bool {
    if remaining == 0 { return true; }
    // an operation may be linearised next iff no other pending operation returned before it was invoked
    let min_ret = events.iter().enumerate().filter(|(i, _)| !done[*i]).map(|(_, e)| e.ret).min().unwrap();
    for i in 0..events.len() {
        if done[i] || events[i].inv > min_ret { continue; }
        let e = &events[i];
        match e.op {
            COp::Update { key, value, explored } => {
                let old = state[key as usize];
                let new = match old { None => (value, explored), Some(o) => o.max((value, explored)) };
                state[key as usize] = Some(new); done[i] = true;
                if lin_cache(events, done, state, remaining - 1) { return true; }
                state[key as usize] = old; done[i] = false;
            }
            COp::Get { key } => {
                if state[key as usize] == e.result { done[i] = true; if lin_cache(events, done, state, remaining - 1) { return true; } done[i] = false; }
            }
        }
    }
    false
}

fn run_cache(seed: u64) -> Result<String, String> {
    let mut rng = Rng(seed);
    let nthreads = 2 + rng.below(2);
    let nkeys = 1 + rng.below(2);
    let mut uniq = 0isize;
    let plans: Vec<Vec<COp>> = (0..nthreads).map(|_| (0..(2 + rng.below(3))).map(|_| if rng.below(5) < 3 { uniq += 1; COp::Update { key: rng.below(nkeys) as u8, value: uniq * 3 % 11, explored: rng.below(2) == 0 } } else { COp::Get { key: rng.below(nkeys) as u8 } }).collect()).collect();
    let mut cache = SimpleCache::<u8>::default();
    cache.initialize(&DummyPb);
    let cache = Arc::new(cache);
    let handles: Vec<_> = plans.iter().cloned().enumerate().map(|(t, plan)| { let cache = cache.clone(); std::thread::spawn(move || {
        let mut evs = vec![];
        for op in plan { let inv = tick(); let result = match op { COp::Update { key, value, explored } => { cache.update_threshold(Arc::new(key), 0, value, explored); None } COp::Get { key } => cache.get_threshold(&key, 0).map(|t| (t.value, t.explored)) }; let ret = tick(); evs.push(CEvent { thread: t, inv, ret, op, result }); }
        evs }) }).collect();
    let mut events: Vec<CEvent> = vec![];
    for h in handles { events.extend(h.join().map_err(|_| "a thread panicked".to_string())?); }
    events.sort_by_key(|e| e.inv);
    let overlapping_updates = events.iter().any(|a| events.iter().any(|b| a.thread != b.thread && matches!((a.op, b.op), (COp::Update { key: k1, .. }, COp::Update { key: k2, .. }) if k1 == k2) && a.inv < b.ret && b.inv < a.ret));
    let get_overlaps_update = events.iter().any(|a| events.iter().any(|b| a.thread != b.thread && matches!((a.op, b.op), (COp::Get { key: k1 }, COp::Update { key: k2, .. }) if k1 == k2) && a.inv < b.ret && b.inv < a.ret));
    // (a) linearizability
    let mut done = vec![false; events.len()];
    let mut st = [None; 4];
    if !lin_cache(&events, &mut done, &mut st, events.len()) { return Err(format!("cache history is not linearizable w.r.t. the max-(value, explored) map: {:?}", events)); }
    // (b) no update lost: final content = max over all updates
    for k in 0..nkeys as u8 {
        let want = events.iter().filter_map(|e| if let COp::Update { key, value, explored } = e.op { if key == k { Some((value, explored)) } else { None } } else { None }).max();
        let got = cache.get_threshold(&k, 0).map(|t| (t.value, t.explored));
        if got != want { return Err(format!("final threshold of key {k} is {:?} but the maximum of all updates is {:?}: an update was lost; history {:?}", got, want, events)); }
    }
    // (c) a stored threshold never decreases between two reads of one thread
    for t in 0..nthreads { for k in 0..nkeys as u8 {
        let reads: Vec<Option<(isize, bool)>> = events.iter().filter(|e| e.thread == t && e.op == (COp::Get { key: k })).map(|e| e.result).collect();
        if reads.windows(2).any(|w| w[1] < w[0]) { return Err(format!("thread {t} saw the threshold of key {k} decrease: {:?}", reads)); }
    } }
    Ok(format!("{{\"kind\":\"cache\",\"threads\":{nthreads},\"ops\":{},\"overlapping_updates_same_key\":{overlapping_updates},\"get_overlapping_update\":{get_overlaps_update},\"history\":\"{}\"}}", events.len(), format!("{:?}", events.iter().map(|e| (e.thread, e.inv, e.ret, e.op, e.result)).collect::<Vec<_>>()).replace('"', "'")))
}

// ------------------------------------------------------------------------------------------------ dominance
#[derive(Debug, Clone, PartialEq, Eq, Hash)]
struct DState { key: u8, coords: [isize; 2] }
struct DRule;
impl Dominance for DRule {
    type State = DState; type Key = u8;
    fn get_key(&self, s: Arc<DState>) -> Option<u8> { Some(s.key) }
    fn nb_dimensions(&self, _: &DState) -> usize { 2 }
    fn get_coordinate(&self, s: &DState, i: usize) -> isize { s.coords[i] }
    fn use_value(&self) -> bool { true }
}
#[derive(Debug, Clone)]
struct DEvent { thread: usize, inv: usize, ret: usize, state: DState, value: isize, dominated: bool }
fn dominates(a: &(DState, isize), b: &(DState, isize)) -> bool {
    a.0.key == b.0.key && a.0.coords[0] >= b.0.coords[0] && a.0.coords[1] >= b.0.coords[1] && a.1 >= b.1 && (a.0.coords != b.0.coords || a.1 > b.1)
}
fn lin_dom(events: &[DEvent], done: &mut Vec<bool>, front: &mut Vec<(DState, isize)>, remaining: usize) -> bool {
    if remaining == 0 { return true; }
    let min_ret = events.iter().enumerate().filter(|(i, _)| !done[*i]).map(|(_, e)| e.ret).min().unwrap();
    for i in 0..events.len() {
        if done[i] || events[i].inv > min_ret { continue; }
        let e = &events[i]; let me = (e.state.clone(), e.value);
        let want = front.iter().any(|f| dominates(f, &me));
        if want != e.dominated { continue; }
        let saved = front.clone();
        if !want { front.retain(|f| !(dominates(&me, f) || *f == me)); front.push(me); }
        done[i] = true;
        if lin_dom(events, done, front, remaining - 1) { return true; }
        done[i] = false; *front = saved;
    }
    false
}
fn run_dom(seed: u64) -> Result<String, String> {
    let mut rng = Rng(seed);
    let nthreads = 2 + rng.below(2);
    let plans: Vec<Vec<(DState, isize)>> = (0..nthreads).map(|_| (0..(2 + rng.below(2))).map(|_| (DState { key: { let nk = 1 + rng.below(2); rng.below(nk) as u8 }, coords: [rng.below(3) as isize, rng.below(2) as isize] }, rng.below(3) as isize)).collect()).collect();
    let chk = Arc::new(SimpleDominanceChecker::new(DRule, 0));
    let handles: Vec<_> = plans.iter().cloned().enumerate().map(|(t, plan)| { let chk = chk.clone(); std::thread::spawn(move || {
        let mut evs = vec![];
        for (s, v) in plan { let inv = tick(); let r = chk.is_dominated_or_insert(Arc::new(s.clone()), 0, v); let ret = tick(); evs.push(DEvent { thread: t, inv, ret, state: s, value: v, dominated: r.dominated }); }
        evs }) }).collect();
    let mut events: Vec<DEvent> = vec![];
    for h in handles { events.extend(h.join().map_err(|_| "a thread panicked".to_string())?); }
    events.sort_by_key(|e| e.inv);
    let overlapping = events.iter().any(|a| events.iter().any(|b| a.thread != b.thread && a.state.key == b.state.key && a.inv < b.ret && b.inv < a.ret));
    let mut done = vec![false; events.len()];
    if !lin_dom(&events, &mut done, &mut vec![], events.len()) { return Err(format!("dominance history is not linearizable w.r.t. the Pareto front specification: {:?}", events)); }
    // afterwards the store answers as the Pareto front of everything presented: each presented state, made strictly worse in value, is dominated
    for e in events.iter() {
        let r = chk.is_dominated_or_insert(Arc::new(e.state.clone()), 0, e.value - 1);
        if !r.dominated { return Err(format!("after the concurrent phase, {:?} with value {} (strictly worse than a presented state) is not reported dominated: a recorded state was lost; history {:?}", e.state, e.value - 1, events)); }
    }
    Ok(format!("{{\"kind\":\"dom\",\"threads\":{nthreads},\"ops\":{},\"overlapping_check_and_insert_same_key\":{overlapping}}}", events.len()))
}

// ------------------------------------------------------------------------------------------------ tiny solver (C04 secondary arm)
#[derive(Debug, Clone, Copy, PartialEq, Eq, Hash)]
struct KS { depth: usize, cap: usize }
struct Knap { cap: usize, p: Vec<usize>, w: Vec<usize> }
impl Problem for Knap {
    type State = KS;
    fn nb_variables(&self) -> usize { self.p.len() }
    fn initial_state(&self) -> KS { KS { depth: 0, cap: self.cap } }
    fn initial_value(&self) -> isize { 0 }
    fn transition(&self, s: &KS, d: Decision) -> KS { KS { depth: s.depth + 1, cap: s.cap - if d.value == 1 { self.w[d.variable.id()] } else { 0 } } }
    fn transition_cost(&self, _: &KS, _: &KS, d: Decision) -> isize { self.p[d.variable.id()] as isize * d.value }
    fn next_variable(&self, depth: usize, _: &mut dyn Iterator<Item = &KS>) -> Option<Variable> { if depth < self.p.len() { Some(Variable(depth)) } else { None } }
    fn for_each_in_domain(&self, v: Variable, s: &KS, f: &mut dyn DecisionCallback) { if s.cap >= self.w[v.id()] { f.apply(Decision { variable: v, value: 1 }); } f.apply(Decision { variable: v, value: 0 }); }
}
struct KR;
impl Relaxation for KR { type State = KS; fn merge(&self, s: &mut dyn Iterator<Item = &KS>) -> KS { s.max_by_key(|x| x.cap).copied().unwrap() } fn relax(&self, _: &KS, _: &KS, _: &KS, _: Decision, c: isize) -> isize { c } }
struct KRank;
impl StateRanking for KRank { type State = KS; fn compare(&self, a: &KS, b: &KS) -> std::cmp::Ordering { a.cap.cmp(&b.cap) } }
struct PollCut { fire_at: usize, polls: AtomicUsize }
impl Cutoff for PollCut { fn must_stop(&self) -> bool { self.polls.fetch_add(1, Ordering::SeqCst) + 1 >= self.fire_at } }
fn run_solver(seed: u64) -> Result<String, String> {
    let mut rng = Rng(seed);
    let n = 3 + rng.below(2);
    let pb = Knap { cap: 5 + rng.below(6), p: (0..n).map(|_| 1 + rng.below(9)).collect(), w: (0..n).map(|_| 1 + rng.below(5)).collect() };
    let mut opt = 0isize;
    for m in 0..(1u32 << n) { let (mut w, mut p) = (0, 0); for i in 0..n { if m >> i & 1 == 1 { w += pb.w[i]; p += pb.p[i]; } } if w <= pb.cap { opt = opt.max(p as isize); } }
    let nthreads = 2 + rng.below(2);
    let fire_at = if rng.below(2) == 0 { usize::MAX } else { 1 + rng.below(12) };
    let cut = PollCut { fire_at, polls: AtomicUsize::new(0) };
    let width = FixedWidth(1 + rng.below(2));
    let dom = EmptyDominanceChecker::default();
    let mut fringe = SimpleFringe::new(MaxUB::new(&KRank));
    let caching = rng.below(2) == 0;
    let (c, lb, ub) = if caching {
        let mut s = ParCachingSolverFc::custom(&pb, &KR, &KRank, &width, &dom, &cut, &mut fringe, nthreads); let c = s.maximize(); (c, s.best_lower_bound(), s.best_upper_bound())
    } else {
        let mut s = ParNoCachingSolverLel::custom(&pb, &KR, &KRank, &width, &dom, &cut, &mut fringe, nthreads); let c = s.maximize(); (c, s.best_lower_bound(), s.best_upper_bound())
    };
    if c.is_exact && c.best_value != Some(opt) { return Err(format!("parallel solver under Miri: exact with {:?}, optimum {opt}", c.best_value)); }
    if !(lb <= opt && opt <= ub) { return Err(format!("parallel solver under Miri: bounds [{lb}, {ub}] do not contain the optimum {opt} (cutoff at poll {fire_at})")); }
    Ok(format!("{{\"kind\":\"solver\",\"threads\":{nthreads},\"n\":{n},\"cutoff_at\":{},\"exact\":{},\"caching\":{caching}}}", if fire_at == usize::MAX { -1 } else { fire_at as isize }, c.is_exact))
}

fn main() {
    let args: Vec<String> = std::env::args().collect();
    let kind = args.get(1).map(|s| s.as_str()).unwrap_or("cache");
    let seed: u64 = args.get(2).and_then(|s| s.parse().ok()).unwrap_or(1);
    let reps: u64 = args.get(3).and_then(|s| s.parse().ok()).unwrap_or(1);
    for r in 0..reps {
        let s = seed.wrapping_mul(1000003).wrapping_add(r);
        let res = match kind { "cache" => run_cache(s), "dom" => run_dom(s), "solver" => run_solver(s), _ => Err("unknown kind".into()) };
        match res { Ok(j) => println!("MIRI-OK workload={s} {j}"), Err(e) => { println!("MIRI-VIOLATION workload={s} kind={kind} {e}"); std::process::exit(1); } }
    }
}
