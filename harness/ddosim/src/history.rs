//! History arms (engine Q): the "node" is one object (a diagram, a fringe, a cache, a dominance store),
//! the history is a generated sequence of operations on it, the fault is an operation abandoned half-way
//! (compilation cut off at layer j) followed by re-use of the same object. Every operation is compared
//! with a reference model.
use std::cmp::Ordering;
use std::sync::Arc;

use ddo::*;
use serde::{Deserialize, Serialize};
use serde_json::json;

use crate::agg::{hash_json, Agg, ViolationRecord};
use crate::monitor::{self, MonProblem, MonRelax};
use crate::rng::{mix, Rng};
use crate::solve::{Dd, Violation};
use crate::table::*;
use crate::wrap::{new_run_ctx, CheckedFringe, CutPlan, SimCutoff};

// =====================================================================================================
// dd-history: C06 C07 C08 (+ monitors C12 C13)
// =====================================================================================================
#[derive(Debug, Clone, Serialize, Deserialize, PartialEq, Eq)]
pub struct CompileOp {
    /// 0 exact, 1 relaxed, 2 restricted
    pub ctype: u8,
    pub layer: usize,
    pub base: usize,
    pub value: isize,
    pub path: Vec<(usize, isize)>,
    pub width: usize,
    pub lb: isize,
    pub cutoff_at: Option<usize>,
}

fn v(props: &[&str], class: &str, msg: String) -> Violation { Violation { props: props.iter().map(|s| s.to_string()).collect(), class: class.into(), msg } }
fn to_sol(p: &[(usize, isize)]) -> Vec<Decision> { p.iter().map(|(a, b)| Decision { variable: Variable(*a), value: *b }).collect() }
fn tdepth(s: &TState) -> Option<usize> { s.layer.map(|l| l as usize) }

#[derive(Default)]
struct DdStats { relaxed: u64, relaxed_exact: u64, relaxed_inexact: u64, restricted: u64, restricted_inexact: u64, exact: u64, aborted: u64, cutset_nodes: u64, completions_checked: u64,
    frontier_multi_layer: u64, infeasible_root: u64, lb_above: u64, reuse_after_abort: u64, exact_best_path_with_merges: u64, recycled: u64, merges: u64, thresholds_checked: u64, thresholds_skipped: u64, thresholds_dead_end: u64, thresholds_tight: u64 }

/// A cache that stays EMPTY for the diagram (every lookup answers "no threshold": the compilation runs in isolation, as C06-C08
/// require) but records every threshold the compilation wants to publish, for the threshold-soundness oracle (C09).
#[derive(Default)]
struct RecCache { rec: std::sync::Mutex<Vec<(TState, usize, isize, bool)>> }
impl Cache for RecCache {
    type State = TState;
    fn initialize(&mut self, _: &dyn Problem<State = TState>) {}
    fn get_threshold(&self, _: &TState, _: usize) -> Option<Threshold> { None }
    fn update_threshold(&self, state: Arc<TState>, depth: usize, value: isize, explored: bool) { self.rec.lock().unwrap().push((state.as_ref().clone(), depth, value, explored)); }
    fn clear_layer(&self, _: usize) {}
    fn clear(&self) {}
}
pub const T_INF: Wide = Wide::MAX / 4;
/// Largest SOUND threshold of every exact state (layer, base), from the reference model alone. An arrival with value w at (l, a)
/// may be discarded iff every completion of it either is worth at most `incumbent` in total, or goes through a sub-problem that was
/// handed out (`covered`: (depth, base) -> value v0) with an arrival value <= v0 (that sub-problem's own exploration subsumes it).
/// T[l][a] = the largest such w (T_INF when (l, a) has no completion at all). Backward DP; arrival values only enter monotonically.
pub fn sound_thresholds(inst: &Inst, incumbent: Wide, covered: &[(usize, usize, isize)]) -> Vec<Vec<Wide>> {
    let t = &inst.t;
    let mut tt = vec![vec![T_INF; t.s]; t.n + 1];
    for a in 0..t.s { tt[t.n][a] = incumbent; }
    for l in (0..t.n).rev() {
        for a in 0..t.s {
            let mut base = T_INF;
            if t.irrelevant[l][a] { base = tt[l + 1][a]; }
            else { for b in 0..t.d { if let Some(x) = t.next[l][a][b] { let c = tt[l + 1][x as usize]; if c < T_INF { base = base.min(c - t.cost[l][a][b] as Wide); } } } }
            tt[l][a] = base;
        }
        for (d, a, v0) in covered.iter() { if *d == l && tt[l][*a] < T_INF { tt[l][*a] = tt[l][*a].max(*v0 as Wide); } }
    }
    tt
}
/// C09 at the source: every threshold published by a completed compilation is compared with the largest sound one
fn check_thresholds(inst: &Inst, rec: &[(TState, usize, isize, bool)], incumbent: Wide, covered: &[(usize, usize, isize)], ctx: &str, st: &mut DdStats, out: &mut Vec<Violation>) {
    if rec.is_empty() { return; }
    let tt = sound_thresholds(inst, incumbent, covered);
    for (state, depth, theta, explored) in rec.iter() {
        if state.set.count_ones() != 1 || *depth > inst.t.n || state.layer.map_or(false, |l| l as usize != *depth) { st.thresholds_skipped += 1; continue; }
        let a = state.set.trailing_zeros() as usize;
        st.thresholds_checked += 1;
        let sound = tt[*depth][a];
        if sound >= T_INF { st.thresholds_dead_end += 1; continue; }
        // (theta, explored): arrivals with value <= theta are discarded; (theta, not explored): arrivals with value < theta are
        let discards_up_to = *theta as Wide - if *explored { 0 } else { 1 };
        if discards_up_to == sound { st.thresholds_tight += 1; }
        if discards_up_to > sound {
            out.push(v(&["C09"], "cache-threshold-unsound", format!("threshold ({theta}, explored = {explored}) published for state {:?} at depth {depth} discards an arrival with value {}, but the largest sound threshold is {sound}: such an arrival has a completion worth more than the incumbent {incumbent} that goes through no handed-out sub-problem of at least its value {:?}; {ctx}", state, discards_up_to.min(sound + 1), covered)));
            break;
        }
    }
}

/// executes a history on ONE diagram object and judges every completed compilation
fn exec_dd_history<D: DecisionDiagram<State = TState> + Default>(inst: &Inst, ops: &[CompileOp], st: &mut DdStats, polls_out: &mut Vec<usize>) -> Vec<Violation> {
    let rc = new_run_ctx();
    monitor::reset_counters();
    let all_relevant = inst.t.irrelevant.iter().all(|r| r.iter().all(|x| !x));
    monitor::C13_ENABLED.store(all_relevant, std::sync::atomic::Ordering::Relaxed);
    let pb = MonProblem { inner: inst, depth_of: tdepth, all_relevant };
    let rlx_inner = TRelax(inst);
    let rlx = MonRelax { pb: &pb, inner: &rlx_inner };
    let rank = TRank(inst.t.rank_seed);
    let cache = RecCache::default();
    let dom = EmptyDominanceChecker::default();
    let mut dd = D::default();
    let mut out = vec![];
    let mut prev_aborted = false;
    for (i, op) in ops.iter().enumerate() {
        let ct = match op.ctype { 0 => CompilationType::Exact, 1 => CompilationType::Relaxed, _ => CompilationType::Restricted };
        let root = SubProblem { state: Arc::new(inst.state_of(op.layer, op.base)), value: op.value, path: to_sol(&op.path), ub: isize::MAX, depth: op.layer };
        let cutoff = SimCutoff::new(match op.cutoff_at { Some(j) => CutPlan::At(j), None => CutPlan::Never });
        let input = CompilationInput { comp_type: ct, problem: &pb, relaxation: &rlx, ranking: &rank, cutoff: &cutoff, max_width: op.width, residual: &root, best_lb: op.lb, cache: &cache, dominance: &dom };
        cache.rec.lock().unwrap().clear();
        monitor::on_explicit_compile(op.width, op.layer, op.ctype);
        let res = std::panic::catch_unwind(std::panic::AssertUnwindSafe(|| dd.compile(&input)));
        monitor::on_compile_end();
        polls_out.push(cutoff.polls());
        let ctx = format!("op #{i} {ct:?} root=(layer {}, base {}, value {}) width={} best_lb={} [{}]", op.layer, op.base, op.value, op.width, op.lb, if i == 0 { "fresh object" } else if prev_aborted { "object re-used after an aborted compilation" } else { "object re-used after a completed compilation" });
        let res = match res {
            Err(e) => { let m = e.downcast_ref::<String>().cloned().or_else(|| e.downcast_ref::<&str>().map(|s| s.to_string())).unwrap_or_default();
                        out.push(v(&[match op.ctype { 1 => "C06", _ => "C07" }], "compile-panic", format!("compile panicked: {m}; {ctx}"))); dd = D::default(); prev_aborted = false; continue; }
            Ok(r) => r,
        };
        if prev_aborted { st.reuse_after_abort += 1; }
        let completion = match res { Err(_) => { st.aborted += 1; prev_aborted = true; continue; } Ok(c) => c };
        prev_aborted = false;
        let h = inst.hstar[op.layer][op.base];
        let opt_r: Wide = if h <= NEG { NEG } else { op.value as Wide + h };
        let lbw = op.lb as Wide;
        if opt_r == NEG { st.infeasible_root += 1; }
        if opt_r != NEG && lbw >= opt_r { st.lb_above += 1; }
        let beats = opt_r > NEG && opt_r > lbw;
        let no_rub = inst.t.rub == Rub::None;
        let replay_full = |sol: Option<Solution>| -> Result<isize, String> { match sol { None => Err("no solution".into()), Some(s) => inst.replay(&s).map(|x| x.0) } };
        if completion.best_value != dd.best_value() || completion.is_exact != dd.is_exact() {
            out.push(v(&[if op.ctype == 1 { "C06" } else { "C07" }], "completion-mismatch", format!("Completion {:?}/{} vs accessors {:?}/{}; {ctx}", completion.best_value, completion.is_exact, dd.best_value(), dd.is_exact())));
        }
        // sub-problems handed out and worth enqueueing (ub above the incumbent): Some(..) when the compilation publishes thresholds
        let mut covered: Option<Vec<(usize, usize, isize)>> = None;
        let incumbent: Wide = lbw.max(dd.best_exact_value().map_or(NEG * 4, |b| b as Wide));
        match op.ctype {
            1 => {
                st.relaxed += 1;
                if beats && !dd.best_value().map_or(false, |b| b as Wide >= opt_r) {
                    out.push(v(&["C06"], "relaxed-bound-too-low", format!("relaxed best_value = {:?} < sub-problem optimum {opt_r} which beats the incumbent; {ctx}", dd.best_value())));
                }
                if dd.is_exact() {
                    st.relaxed_exact += 1;
                    covered = Some(vec![]);
                    if monitor::MERGE_CALLS.load(std::sync::atomic::Ordering::Relaxed) > 0 { st.exact_best_path_with_merges += 1; }
                    let bev = dd.best_exact_value();
                    if let Some(b) = bev {
                        if opt_r == NEG || b as Wide > opt_r { out.push(v(&["C06"], "exact-value-above-optimum", format!("diagram declares itself exact with best exact value {b} but the sub-problem optimum is {}; {ctx}", if opt_r == NEG { "-inf (infeasible)".to_string() } else { opt_r.to_string() }))); }
                        match replay_full(dd.best_exact_solution()) {
                            Ok(val) if val == b => {}
                            Ok(val) => out.push(v(&["C06"], "exact-solution-value", format!("best exact solution evaluates to {val} in the model, best exact value is {b}; {ctx}"))),
                            Err(e) => out.push(v(&["C06"], "exact-solution-infeasible", format!("best exact solution is not a feasible completion: {e}; {ctx}"))),
                        }
                    }
                    if (beats || (no_rub && opt_r > NEG && op.lb == isize::MIN)) && bev.map(|b| b as Wide) != Some(opt_r) {
                        out.push(v(&["C06"], "exact-but-not-optimum", format!("diagram declares itself exact, best exact value = {:?}, sub-problem optimum = {opt_r}; {ctx}", bev)));
                    }
                } else {
                    st.relaxed_inexact += 1;
                    let bev = dd.best_exact_value();
                    let mut cs = vec![];
                    dd.drain_cutset(|c| cs.push(c));
                    st.cutset_nodes += cs.len() as u64;
                    let mut depths: Vec<usize> = cs.iter().map(|c| c.depth).collect(); depths.sort(); depths.dedup();
                    if depths.len() >= 2 { st.frontier_multi_layer += 1; }
                    let mut cs_pos: Vec<(usize, usize)> = vec![];
                    for c in cs.iter() {
                        let cctx = format!("cut-set node state={:?} depth={} value={} ub={} path={:?}; {ctx}", c.state, c.depth, c.value, c.ub, c.path.iter().map(|d| (d.variable.id(), d.value)).collect::<Vec<_>>());
                        if c.state.set.count_ones() != 1 { out.push(v(&["C08"], "cutset-not-exact", format!("cut-set node is not an exact state; {cctx}"))); continue; }
                        let b = c.state.set.trailing_zeros() as usize;
                        match inst.replay_prefix(&c.path) {
                            Err(e) => out.push(v(&["C08"], "cutset-path-infeasible", format!("{e}; {cctx}"))),
                            Ok((val, lay, base)) => {
                                // depth at which the reference model expands that state: first relevant layer from `lay` on
                                let mut exp = lay; while exp < inst.t.n && inst.t.irrelevant[exp][base] { exp += 1; }
                                let depth_ok = c.depth == lay || (c.depth > lay && c.depth <= exp);
                                if val != c.value || base != b || !depth_ok || c.state.layer.map_or(false, |l| l as usize != c.depth) {
                                    out.push(v(&["C08"], "cutset-path-mismatch", format!("path replays to value {val}, layer {lay}, base state {base}; {cctx}")));
                                }
                            }
                        }
                        if c.depth <= op.layer || (c.depth == op.layer && b == op.base) { out.push(v(&["C08"], "cutset-no-progress", format!("handed-out sub-problem is not strictly deeper than the root (depth {}) [{}]; {cctx}", op.layer,
                            if inst.d5_precondition(op.layer, op.base) { "D5-precondition holds: the children of the root are not all expanded at the same layer" } else { "D5-precondition does NOT hold" }))); }
                        if c.depth <= inst.t.n {
                            let hc = inst.hstar[c.depth.min(inst.t.n)][b];
                            if hc > NEG && c.value as Wide + hc > lbw && (c.ub as Wide) < c.value as Wide + hc { out.push(v(&["C08"], "cutset-ub-too-low", format!("ub {} < best completion through it {} which beats the incumbent; {cctx}", c.ub, c.value as Wide + hc))); }
                        }
                        cs_pos.push((c.depth, b));
                    }
                    covered = Some(cs.iter().filter(|c| c.state.set.count_ones() == 1 && c.ub as Wide > incumbent).map(|c| (c.depth, c.state.set.trailing_zeros() as usize, c.value)).collect());
                    // coverage (iv): every completion of the root that beats incumbent and best exact value goes through a handed-out node
                    if inst.t.n <= 6 && opt_r > NEG {
                        let thr = lbw.max(bev.unwrap_or(isize::MIN) as Wide);
                        for (traj, togo) in inst.enumerate_completions(op.layer, op.base) {
                            let val = op.value as Wide + togo;
                            if val > thr {
                                st.completions_checked += 1;
                                if !traj.iter().any(|p| cs_pos.contains(p)) {
                                    out.push(v(&["C08"], "cutset-coverage", format!("completion with value {val} (> incumbent {} and best exact value {:?}) visiting {:?} goes through none of the handed-out sub-problems {:?}; {ctx}", op.lb, bev, traj, cs_pos)));
                                    break;
                                }
                            }
                        }
                    }
                }
            }
            2 => {
                st.restricted += 1;
                if !completion.is_exact { st.restricted_inexact += 1; } else { covered = Some(vec![]); }
                if let Some(b) = dd.best_value() {
                    if opt_r == NEG || b as Wide > opt_r { out.push(v(&["C07"], "restricted-above-optimum", format!("restricted best_value {b} > sub-problem optimum {}; {ctx}", if opt_r == NEG { "-inf".to_string() } else { opt_r.to_string() }))); }
                    match replay_full(dd.best_solution()) {
                        Ok(val) if val == b => {}
                        Ok(val) => out.push(v(&["C07"], "restricted-solution-value", format!("best solution evaluates to {val}, reported {b}; {ctx}"))),
                        Err(e) => out.push(v(&["C07"], "restricted-solution-infeasible", format!("{e}; {ctx}"))),
                    }
                }
                if completion.is_exact && beats && dd.best_value().map(|b| b as Wide) != Some(opt_r) { out.push(v(&["C07"], "restricted-exact-but-not-optimum", format!("restricted diagram declares itself exact with {:?}, optimum {opt_r}; {ctx}", dd.best_value()))); }
            }
            _ => {
                st.exact += 1;
                covered = Some(vec![]);
                if beats && dd.best_value().map(|b| b as Wide) != Some(opt_r) { out.push(v(&["C07"], "exact-mode-not-optimum", format!("exact-mode compilation yields {:?}, sub-problem optimum {opt_r}; {ctx}", dd.best_value()))); }
                if let Some(b) = dd.best_value() { if opt_r == NEG || b as Wide > opt_r { out.push(v(&["C07"], "exact-mode-above-optimum", format!("exact-mode value {b} above optimum; {ctx}"))); } }
            }
        }
        if let (Some(cov), true) = (covered.as_ref(), all_relevant) {
            let rec = cache.rec.lock().unwrap().clone();
            check_thresholds(inst, &rec, incumbent, cov, &ctx, st, &mut out);
        }
    }
    st.recycled += monitor::RECYCLED_MERGES.load(std::sync::atomic::Ordering::Relaxed) as u64;
    st.merges += monitor::MERGE_CALLS.load(std::sync::atomic::Ordering::Relaxed) as u64;
    for (p, m) in rc.violations.lock().unwrap().iter() { out.push(v(&[p.as_str()], if p == "C12" { "callback-protocol" } else { "width-exceeded" }, m.clone())); }
    out
}

fn dispatch_dd(dd: Dd, inst: &Inst, ops: &[CompileOp], st: &mut DdStats, polls: &mut Vec<usize>) -> Vec<Violation> {
    match dd {
        Dd::Lel => exec_dd_history::<DefaultMDDLEL<TState>>(inst, ops, st, polls),
        Dd::Fc => exec_dd_history::<DefaultMDDFC<TState>>(inst, ops, st, polls),
        Dd::Pooled => exec_dd_history::<Pooled<TState>>(inst, ops, st, polls),
    }
}

fn gen_dd_history(rng: &mut Rng, inst: &Inst) -> Vec<CompileOp> {
    let subs = inst.enumerate_prefixes(300);
    let nops = 3 + rng.below(5);
    let mut ops = vec![];
    for _ in 0..nops {
        let (l, a, val, path) = subs[rng.below(subs.len())].clone();
        if l >= inst.t.n { continue; }
        let h = inst.hstar[l][a];
        let opt_r: Option<isize> = if h <= NEG { None } else { Some(clamp_isize(val as Wide + h)) };
        let lb = match (opt_r, rng.below(7)) { (None, 0..=4) => isize::MIN, (None, _) => rng.range(-5, 5), (Some(_), 0 | 1) => isize::MIN, (Some(o), 2) => o - 1 - rng.below(3) as isize, (Some(o), 3) => o - 1, (Some(o), 4) => o, (Some(o), _) => o + 1 + rng.below(3) as isize };
        let ctype = match rng.below(6) { 0 => 0, 1 | 2 => 2, _ => 1 };
        let width = *rng.pick(&[1, 1, 2, 2, 2, 3, 3, 4, 5]);
        ops.push(CompileOp { ctype, layer: l, base: a, value: val, path: path.iter().map(|d| (d.variable.id(), d.value)).collect(), width, lb, cutoff_at: None });
    }
    if ops.is_empty() { let (l, a, val, _) = subs[0].clone(); ops.push(CompileOp { ctype: 1, layer: l, base: a, value: val, path: vec![], width: 1, lb: isize::MIN, cutoff_at: None }); }
    ops
}

fn record_dd(agg: &mut Agg, st: &DdStats) {
    agg.add("compilations_relaxed", st.relaxed); agg.add("probe:relaxed_exact", st.relaxed_exact); agg.add("probe:relaxed_inexact", st.relaxed_inexact);
    agg.add("compilations_restricted", st.restricted); agg.add("probe:restricted_inexact(layer truncated)", st.restricted_inexact); agg.add("compilations_exact_mode", st.exact);
    agg.add("fault:compile_aborted_by_cutoff", st.aborted); agg.add("fault:reuse_after_abort", st.reuse_after_abort); agg.add("cutset_nodes_checked", st.cutset_nodes);
    agg.add("completions_checked_for_coverage", st.completions_checked); agg.add("probe:frontier_cutset_spanning_>=2_layers", st.frontier_multi_layer);
    agg.add("probe:infeasible_subproblem", st.infeasible_root); agg.add("probe:incumbent_at_or_above_optimum", st.lb_above); agg.add("probe:exact_best_path_claim_with_merges_present", st.exact_best_path_with_merges);
    agg.add("probe:merged_state_equal_to_a_kept_node(recycled)", st.recycled); agg.add("mon_merge_calls", st.merges);
    agg.add("thresholds_checked", st.thresholds_checked); agg.add("thresholds_skipped(merged state or long arc)", st.thresholds_skipped); agg.add("thresholds_of_dead_end_states", st.thresholds_dead_end); agg.add("probe:published_threshold_equals_largest_sound_one", st.thresholds_tight);
}

fn run_dd_history(arm: &str, seed: u64, run: u64, agg: &mut Agg, explicit: Option<(&Table, Dd, &[CompileOp])>) -> Option<ViolationRecord> {
    let mut rng = Rng::new(seed);
    let (table, dd, base_ops) = match explicit {
        Some((t, d, o)) => (t.clone(), d, o.to_vec()),
        None => {
            let long_arcs = arm == "dd-history-longarc";
            let narrow = arm == "dd-history-narrow";
            let mut trng = rng.fork(1);
            let mut t = Table::generate(&mut trng, GenOpts { depth_free: arm == "dd-history-depthfree", long_arcs, max_n: 6, max_s: 6, reconverge: false, dom_friendly: false, few_dead_arcs: narrow, knapsack_quarters: 0, top_merge_quarters: if narrow { 2 } else { 1 }, abyss_one_in: if long_arcs { 0 } else { 10 }, penalty_one_in: 10 });
            if arm == "dd-history" && rng.chance(1, 3) { t.rub = Rub::None; }
            let dd = *rng.pick(&[Dd::Lel, Dd::Fc, Dd::Pooled]);
            let inst = Inst::new(t.clone());
            let mut ops = gen_dd_history(&mut rng, &inst);
            if long_arcs {
                // half of the roots are given the way the pooled diagram reports sub-problems: without the neutral decisions of
                // skipped (irrelevant) variables, i.e. with a path that is shorter than the depth
                for op in ops.iter_mut() { if rng.chance(1, 2) {
                    let mut a = 0usize; let mut keep = vec![];
                    for (l, (var, val)) in op.path.iter().enumerate() { if !inst.t.irrelevant[l][a] { keep.push((*var, *val)); } a = inst.t.next[l][a][*val as usize].unwrap_or(a as u8) as usize; }
                    op.path = keep;
                } }
            }
            if narrow {
                // many merges: relaxed compilations from shallow roots with widths 2..3 (so that set-states and their members meet in one layer)
                for op in ops.iter_mut() { if rng.chance(3, 4) { op.ctype = 1; } op.width = 2 + rng.below(2); if rng.chance(2, 3) { op.layer = 0; op.base = 0; op.value = inst.t.v0; op.path = vec![]; if rng.chance(1, 2) { op.lb = isize::MIN; } } }
            }
            (t, dd, ops)
        }
    };
    let inst = Inst::new(table.clone());
    agg.runs += 1;
    let mut st = DdStats::default();
    let mut polls = vec![];
    let mut viol = dispatch_dd(dd, &inst, &base_ops, &mut st, &mut polls);
    let mut failing_ops = base_ops.clone();
    agg.add("compilations", base_ops.len() as u64);
    // fault enumeration: one operation of the history is abandoned at EVERY layer j, the rest of the history follows on the same object
    if explicit.is_none() && viol.is_empty() && base_ops.len() >= 2 {
        let p = rng.below(base_ops.len() - 1);
        let k = polls[p];
        for j in 1..=k {
            let mut ops = base_ops.clone();
            ops[p].cutoff_at = Some(j);
            let mut pl = vec![];
            let vv = dispatch_dd(dd, &inst, &ops, &mut st, &mut pl);
            agg.add("compilations", ops.len() as u64);
            agg.add("sweep_executions", 1);
            agg.distinct_case(mix(hash_json(&(&table, dd, &ops)), j as u64));
            if !vv.is_empty() { viol = vv; failing_ops = ops; break; }
        }
    }
    record_dd(agg, &st);
    if st.relaxed_inexact > 0 || st.restricted_inexact > 0 { agg.distinct_case(hash_json(&(&table, dd, &base_ops))); }
    agg.sample(|| json!({"arm": arm, "seed": seed, "dd": dd, "instance": {"n": table.n, "s": table.s, "d": table.d, "next": table.next, "cost": table.cost, "v0": table.v0, "rub": table.rub, "irrelevant": table.irrelevant}, "ops": base_ops}));
    viol.dedup_by(|a, b| a.class == b.class);
    if viol.is_empty() { None } else { Some(ViolationRecord { arm: arm.into(), seed, run, violations: viol, replay: json!({"kind": "dd-history", "arm": arm, "table": table, "dd": dd, "ops": failing_ops}) }) }
}

// =====================================================================================================
// fringe-history: C11
// =====================================================================================================
#[derive(Debug, Clone, Serialize, Deserialize, PartialEq, Eq)]
pub enum FringeOp { Push { state: u8, depth: usize, value: isize, ub: isize }, Pop, Clear }
struct ByteRank;
impl StateRanking for ByteRank { type State = u8; fn compare(&self, a: &u8, b: &u8) -> Ordering { a.cmp(b) } }

fn exec_fringe_history<F: Fringe<State = u8>>(f: F, dedup: bool, ops: &[FringeOp], agg: &mut Agg) -> Vec<Violation> {
    let mut cf = CheckedFringe::new(f, dedup);
    for (i, op) in ops.iter().enumerate() {
        let r = std::panic::catch_unwind(std::panic::AssertUnwindSafe(|| match op {
            FringeOp::Push { state, depth, value, ub } => cf.push(SubProblem { state: Arc::new(*state), value: *value, path: vec![Decision { variable: Variable(i), value: *value }], ub: *ub, depth: *depth }),
            FringeOp::Pop => { let _ = cf.pop(); }
            FringeOp::Clear => cf.clear(),
        }));
        if let Err(e) = r { let m = e.downcast_ref::<String>().cloned().or_else(|| e.downcast_ref::<&str>().map(|s| s.to_string())).unwrap_or_default(); cf.errors.push(format!("operation #{i} ({:?}) panicked: {m}", op)); }
        if !cf.errors.is_empty() { break; }
    }
    // nothing lost, nothing invented: drain and compare
    let mut guard = 0;
    while cf.errors.is_empty() && (cf.len() > 0 || !cf.reference.is_empty()) && guard < 1000 { let _ = cf.pop(); guard += 1; }
    agg.add("fringe_pushes", cf.stats.pushes as u64); agg.add("fringe_pops", cf.stats.pops as u64); agg.add("fringe_clears", cf.stats.clears as u64);
    agg.add("probe:coalesced", cf.stats.coalesced as u64); agg.add("probe:coalesced_with_different_ub", cf.stats.coalesced_diff_ub as u64); agg.max("fringe_len", cf.stats.max_len as u64);
    cf.errors.iter().map(|e| v(&["C11"], "fringe-mismatch", format!("{} fringe: {e}", if dedup { "NoDupFringe" } else { "SimpleFringe" }))).collect()
}

fn run_fringe_history(arm: &str, seed: u64, run: u64, agg: &mut Agg, explicit: Option<(bool, &[FringeOp])>) -> Option<ViolationRecord> {
    let mut rng = Rng::new(seed);
    let (dedup, ops) = match explicit { Some((d, o)) => (d, o.to_vec()), None => {
        let dedup = rng.chance(2, 3);
        let len = 4 + rng.below(40);
        let nstates = 1 + rng.below(4); let ndepths = 1 + rng.below(3); let vmax = 1 + rng.below(4) as isize; let umax = 1 + rng.below(5) as isize;
        let ppush = 4 + rng.below(4);
        let ops = (0..len).map(|_| { let x = rng.below(10); if x < ppush { FringeOp::Push { state: rng.below(nstates) as u8, depth: rng.below(ndepths), value: rng.range(0, vmax), ub: rng.range(0, umax) } } else if x < 9 || !rng.chance(1, 3) { FringeOp::Pop } else { FringeOp::Clear } }).collect();
        (dedup, ops) } };
    agg.runs += 1;
    let rank = ByteRank;
    let viol = if dedup { exec_fringe_history(NoDupFringe::new(MaxUB::new(&rank)), true, &ops, agg) } else { exec_fringe_history(SimpleFringe::new(MaxUB::new(&rank)), false, &ops, agg) };
    agg.distinct_case(hash_json(&(dedup, &ops)));
    agg.sample(|| json!({"arm": arm, "seed": seed, "dedup": dedup, "ops": ops}));
    if viol.is_empty() { None } else { Some(ViolationRecord { arm: arm.into(), seed, run, violations: viol, replay: json!({"kind": "fringe-history", "dedup": dedup, "ops": ops}) }) }
}

// =====================================================================================================
// store-history: C18 (sequential specification of the cache)
// =====================================================================================================
#[derive(Debug, Clone, Serialize, Deserialize, PartialEq, Eq)]
pub enum CacheOp { Update { state: u8, depth: usize, value: isize, explored: bool }, Get { state: u8, depth: usize }, ClearLayer { depth: usize }, Clear, MustExplore { state: u8, depth: usize, value: isize } }
struct DummyPb(usize);
impl Problem for DummyPb {
    type State = u8;
    fn nb_variables(&self) -> usize { self.0 }
    fn initial_state(&self) -> u8 { 0 }
    fn initial_value(&self) -> isize { 0 }
    fn transition(&self, s: &u8, _: Decision) -> u8 { *s }
    fn transition_cost(&self, _: &u8, _: &u8, _: Decision) -> isize { 0 }
    fn next_variable(&self, _: usize, _: &mut dyn Iterator<Item = &u8>) -> Option<Variable> { None }
    fn for_each_in_domain(&self, _: Variable, _: &u8, _: &mut dyn DecisionCallback) {}
}
const CACHE_LAYERS: usize = 3;
fn run_store_history(arm: &str, seed: u64, run: u64, agg: &mut Agg, explicit: Option<&[CacheOp]>) -> Option<ViolationRecord> {
    let mut rng = Rng::new(seed);
    let ops: Vec<CacheOp> = match explicit { Some(o) => o.to_vec(), None => {
        let len = 3 + rng.below(30); let ns = 1 + rng.below(3);
        (0..len).map(|_| { let st = rng.below(ns) as u8; let d = rng.below(CACHE_LAYERS + 1); match rng.below(12) {
            0..=4 => CacheOp::Update { state: st, depth: d, value: rng.range(-2, 3), explored: rng.chance(1, 2) }, 5..=8 => CacheOp::Get { state: st, depth: d },
            9 => CacheOp::ClearLayer { depth: d }, 10 => CacheOp::MustExplore { state: st, depth: d, value: rng.range(-2, 3) }, _ => if rng.chance(1, 3) { CacheOp::Clear } else { CacheOp::Get { state: st, depth: d } } } }).collect() } };
    agg.runs += 1;
    let mut cache = SimpleCache::<u8>::default();
    cache.initialize(&DummyPb(CACHE_LAYERS));
    let mut reference: Vec<std::collections::BTreeMap<u8, (isize, bool)>> = vec![Default::default(); CACHE_LAYERS + 1];
    let mut viol = vec![];
    for (i, op) in ops.iter().enumerate() {
        match op {
            CacheOp::Update { state, depth, value, explored } => { cache.update_threshold(Arc::new(*state), *depth, *value, *explored); let e = reference[*depth].entry(*state).or_insert((*value, *explored)); if (*value, *explored) > *e { *e = (*value, *explored); } agg.add("cache_updates", 1); }
            CacheOp::Get { state, depth } => { let got = cache.get_threshold(state, *depth).map(|t| (t.value, t.explored)); let want = reference[*depth].get(state).copied(); agg.add("cache_gets", 1); agg.hit("probe:get_hit", want.is_some());
                if got != want { viol.push(v(&["C18"], "cache-get-mismatch", format!("op #{i}: get_threshold(state {state}, depth {depth}) = {:?}, the maximum (value, explored) recorded since the layer was last cleared is {:?}", got, want))); break; } }
            CacheOp::ClearLayer { depth } => { cache.clear_layer(*depth); reference[*depth].clear(); agg.add("cache_clear_layers", 1); }
            CacheOp::Clear => { cache.clear(); for r in reference.iter_mut() { r.clear(); } agg.add("cache_clears", 1); }
            CacheOp::MustExplore { state, depth, value } => { let sub = SubProblem { state: Arc::new(*state), value: *value, path: vec![], ub: 0, depth: *depth }; let got = cache.must_explore(&sub);
                let want = match reference[*depth].get(state) { None => true, Some((tv, te)) => *value > *tv || (*value == *tv && !*te) };
                if got != want { viol.push(v(&["C18"], "cache-must-explore-mismatch", format!("op #{i}: must_explore(state {state}, depth {depth}, value {value}) = {got}, expected {want}"))); break; } }
        }
    }
    if viol.is_empty() { for d in 0..=CACHE_LAYERS { for s in 0..3u8 { let got = cache.get_threshold(&s, d).map(|t| (t.value, t.explored)); let want = reference[d].get(&s).copied(); if got != want { viol.push(v(&["C18"], "cache-final-state-mismatch", format!("final content at (state {s}, depth {d}) = {:?}, expected {:?}", got, want))); } } } }
    agg.distinct_case(hash_json(&ops));
    agg.sample(|| json!({"arm": arm, "seed": seed, "ops": ops}));
    if viol.is_empty() { None } else { Some(ViolationRecord { arm: arm.into(), seed, run, violations: viol, replay: json!({"kind": "store-history", "ops": ops}) }) }
}

// =====================================================================================================
// dom-history: C10 (checker semantics), also the sequential specification of the dominance store for C18
// =====================================================================================================
#[derive(Debug, Clone, PartialEq, Eq, Hash, Serialize, Deserialize)]
pub struct DState { pub key: u8, pub coords: Vec<isize> }
#[derive(Debug, Clone, Serialize, Deserialize, PartialEq, Eq)]
pub enum DomOp { Check { state: DState, depth: usize, value: isize }, ClearLayer { depth: usize } }
pub struct DRule { pub use_value: bool, pub keyed: bool }
impl Dominance for DRule {
    type State = DState; type Key = u8;
    fn get_key(&self, s: Arc<DState>) -> Option<u8> { if self.keyed { if s.key == 255 { None } else { Some(s.key) } } else { Some(0) } }
    fn nb_dimensions(&self, s: &DState) -> usize { s.coords.len() }
    fn get_coordinate(&self, s: &DState, i: usize) -> isize { s.coords[i] }
    fn use_value(&self) -> bool { self.use_value }
}
/// reference: a >= b everywhere (and in value when used) and strictly better somewhere
fn ref_dominates(a: &(DState, isize), b: &(DState, isize), use_value: bool) -> bool {
    let ge = a.0.coords.iter().zip(b.0.coords.iter()).all(|(x, y)| x >= y) && (!use_value || a.1 >= b.1);
    let gt = a.0.coords.iter().zip(b.0.coords.iter()).any(|(x, y)| x > y) || (use_value && a.1 > b.1);
    ge && gt
}
const DOM_LAYERS: usize = 2;
fn run_dom_history(arm: &str, seed: u64, run: u64, agg: &mut Agg, explicit: Option<(bool, usize, &[DomOp])>) -> Option<ViolationRecord> {
    let mut rng = Rng::new(seed);
    let (use_value, ops): (bool, Vec<DomOp>) = match explicit { Some((u, _, o)) => (u, o.to_vec()), None => {
        let use_value = rng.chance(1, 2); let len = 2 + rng.below(16); let nk = 1 + rng.below(2); let dims = 1 + rng.below(3); let cmax = 1 + rng.below(2) as isize; let vmax = rng.below(4) as isize;
        (use_value, (0..len).map(|_| if rng.chance(1, 14) { DomOp::ClearLayer { depth: rng.below(DOM_LAYERS) } } else {
            DomOp::Check { state: DState { key: if rng.chance(1, 25) { 255 } else { rng.below(nk) as u8 }, coords: (0..dims).map(|_| rng.range(0, cmax)).collect() }, depth: rng.below(DOM_LAYERS), value: rng.range(0, vmax) } }).collect()) } };
    agg.runs += 1;
    let mk = || SimpleDominanceChecker::new(DRule { use_value, keyed: true }, DOM_LAYERS - 1);
    let chk = mk();
    // reference Pareto fronts per (depth, key)
    let mut front: Vec<std::collections::BTreeMap<u8, Vec<(DState, isize)>>> = vec![Default::default(); DOM_LAYERS];
    let mut viol = vec![];
    'outer: for (i, op) in ops.iter().enumerate() {
        match op {
            DomOp::ClearLayer { depth } => { chk.clear_layer(*depth); front[*depth].clear(); }
            DomOp::Check { state, depth, value } => {
                let r = chk.is_dominated_or_insert(Arc::new(state.clone()), *depth, *value);
                agg.add("dominance_checks", 1);
                if state.key == 255 {
                    if r.dominated { viol.push(v(&["C10", "C18"], "dominance-verdict", format!("op #{i}: state without key reported dominated"))); break; }
                    continue;
                }
                let me = (state.clone(), *value);
                let f = front[*depth].entry(state.key).or_default();
                let want = f.iter().any(|e| ref_dominates(e, &me, use_value));
                agg.hit("probe:dominated_verdict", want);
                agg.hit("probe:equal_state_re_presented", f.iter().any(|e| *e == me));
                if r.dominated != want {
                    viol.push(v(&["C10", "C18"], "dominance-verdict", format!("op #{i}: is_dominated_or_insert({:?}, depth {depth}, value {value}) says dominated = {}, but the Pareto front of what was recorded is {:?} (use_value = {use_value})", state, r.dominated, f)));
                    break;
                }
                if !want {
                    let before = f.len();
                    f.retain(|e| !(ref_dominates(&me, e, use_value) || *e == me));
                    agg.hit("probe:recorded_entry_dropped_by_later_dominating_state", f.len() < before);
                    f.push(me);
                    if r.threshold.is_some() { viol.push(v(&["C10"], "dominance-threshold", format!("op #{i}: not dominated but a threshold {:?} is returned", r.threshold))); break; }
                } else {
                    // threshold soundness, checked against the implementation itself
                    match r.threshold {
                        None => { viol.push(v(&["C10"], "dominance-threshold", format!("op #{i}: dominated verdict without threshold"))); break; }
                        Some(t) => {
                            if t < *value { viol.push(v(&["C10"], "dominance-threshold", format!("op #{i}: threshold {t} is below the presented value {value}"))); break; }
                            let hi = t.min(*value + 4);
                            for vv in *value..=hi {
                                let fresh = mk();
                                for prev in ops[..i].iter() { match prev { DomOp::ClearLayer { depth } => fresh.clear_layer(*depth), DomOp::Check { state, depth, value } => { let _ = fresh.is_dominated_or_insert(Arc::new(state.clone()), *depth, *value); } } }
                                let rr = fresh.is_dominated_or_insert(Arc::new(state.clone()), *depth, vv);
                                agg.add("threshold_soundness_probes", 1);
                                if !rr.dominated { viol.push(v(&["C10"], "dominance-threshold-unsound", format!("op #{i}: {:?} with value {value} was reported dominated with threshold {t}, but the same state with value {vv} <= {t} is not dominated", state))); break 'outer; }
                            }
                        }
                    }
                }
            }
        }
    }
    // comparator: a dominating state sorts first
    if viol.is_empty() {
        let states: Vec<(DState, isize)> = ops.iter().filter_map(|o| if let DomOp::Check { state, value, .. } = o { Some((state.clone(), *value)) } else { None }).collect();
        for a in states.iter() { for b in states.iter() { if a.0.coords.len() == b.0.coords.len() && ref_dominates(a, b, use_value) {
            agg.add("comparator_pairs_checked", 1);
            if chk.cmp(&a.0, a.1, &b.0, b.1) != Ordering::Greater { viol.push(v(&["C10"], "dominance-comparator", format!("{:?} dominates {:?} but cmp does not rank it first", a, b))); }
        } } }
        // closing probe queries: the store answers as the Pareto front of everything recorded
        for d in 0..DOM_LAYERS { for (k, f) in front[d].clone().iter() { for e in f.iter() {
            let probe = (DState { key: *k, coords: e.0.coords.iter().map(|c| c - 1).collect() }, e.1);
            let r = chk.is_dominated_or_insert(Arc::new(probe.0.clone()), d, probe.1);
            if !r.dominated { viol.push(v(&["C10", "C18"], "dominance-final-state", format!("closing probe {:?} (strictly worse than recorded {:?}) is not reported dominated", probe, e))); }
        } } }
    }
    agg.distinct_case(hash_json(&(use_value, &ops)));
    agg.sample(|| json!({"arm": arm, "seed": seed, "use_value": use_value, "ops": ops}));
    viol.truncate(3);
    if viol.is_empty() { None } else { Some(ViolationRecord { arm: arm.into(), seed, run, violations: viol, replay: json!({"kind": "dom-history", "use_value": use_value, "ops": ops}) }) }
}

// =====================================================================================================
// width-grid: the combinator clause of C13 (a pure function: grid evaluation, NOT a simulation result)
// =====================================================================================================
fn run_width_grid(seed: u64, run: u64, agg: &mut Agg) -> Option<ViolationRecord> {
    let mut rng = Rng::new(seed);
    agg.runs += 1;
    let nvars = rng.below(12); let plen = rng.below(nvars + 1); let k = 1 + rng.below(9); let base = rng.below(7);
    let sub = SubProblem { state: Arc::new(0u8), value: 0, path: (0..plen).map(|i| Decision { variable: Variable(i), value: 0 }).collect(), ub: 0, depth: plen };
    let mut viol = vec![];
    let mut chk = |name: &str, w: usize| { if w == 0 { viol.push(v(&["C13"], "zero-width", format!("{name} yields a width of zero (base {base}, nb vars {nvars}, path length {plen}, factor {k})"))); } };
    chk("Times(k, FixedWidth)", Times(k, FixedWidth(base)).max_width(&sub));
    chk("DivBy(k, FixedWidth)", DivBy(k, FixedWidth(base)).max_width(&sub));
    chk("Times(0, FixedWidth)", Times(0, FixedWidth(base)).max_width(&sub));
    chk("Times(k, NbUnassignedWidth)", Times(k, NbUnassignedWidth(nvars)).max_width(&sub));
    chk("DivBy(k, NbUnassignedWidth)", DivBy(k, NbUnassignedWidth(nvars)).max_width(&sub));
    chk("DivBy(k, Times(k, NbUnassigned))", DivBy(k, Times(k, NbUnassignedWidth(nvars))).max_width(&sub));
    agg.add("width_combinator_evaluations", 6);
    agg.distinct_case(hash_json(&(nvars, plen, k, base)));
    agg.sample(|| json!({"arm": "width-grid", "nb_vars": nvars, "path_len": plen, "factor": k, "base": base}));
    if viol.is_empty() { None } else { Some(ViolationRecord { arm: "width-grid".into(), seed, run, violations: viol, replay: json!({"kind": "seed", "arm": "width-grid", "seed": seed}) }) }
}

// =====================================================================================================
// bounded-exhaustive histories (enumeration, not seeded search): the run index IS the history, decoded in mixed radix over a
// tiny alphabet; running indices 0..N covers every history up to the given length exactly once. These arms exist because the
// quantifiers of C10 / C11 / C18 ask for it; the evidence flags them as enumeration.
// =====================================================================================================
fn decode(mut idx: u64, radix: u64, max_len: usize) -> Vec<u64> {
    // histories are ordered by length: first all of length 1, then length 2, ...
    let mut len = 1usize; let mut block = radix;
    while len < max_len && idx >= block { idx -= block; len += 1; block *= radix; }
    let idx = idx % block;
    let mut v = vec![0u64; len]; let mut x = idx;
    for k in (0..len).rev() { v[k] = x % radix; x /= radix; }
    v
}
pub fn enum_space(radix: u64, max_len: usize) -> u64 { let mut t = 0u64; let mut b = 1u64; for _ in 0..max_len { b *= radix; t += b; } t }
fn fringe_sym(x: u64) -> FringeOp { match x { 16 => FringeOp::Pop, 17 => FringeOp::Clear, _ => FringeOp::Push { state: (x & 1) as u8, depth: (x >> 1 & 1) as usize, value: (x >> 2 & 1) as isize, ub: (x >> 3 & 1) as isize } } }
fn cache_sym(x: u64) -> CacheOp { match x { 0..=15 => CacheOp::Update { state: (x & 1) as u8, depth: (x >> 1 & 1) as usize, value: (x >> 2 & 1) as isize, explored: x >> 3 & 1 == 1 },
    16..=19 => CacheOp::Get { state: (x & 1) as u8, depth: (x >> 1 & 1) as usize }, 20 | 21 => CacheOp::ClearLayer { depth: (x & 1) as usize }, _ => CacheOp::Clear } }
fn dom_sym(x: u64) -> DomOp { match x { 8 => DomOp::ClearLayer { depth: 0 }, _ => DomOp::Check { state: DState { key: 0, coords: vec![(x & 1) as isize, (x >> 1 & 1) as isize] }, depth: 0, value: (x >> 2 & 1) as isize } } }
fn run_enum_arm(arm: &str, run: u64, agg: &mut Agg) -> Option<ViolationRecord> {
    let max_len: usize = std::env::var("VERIF_ENUM_LEN").ok().and_then(|s| s.parse().ok()).unwrap_or(4);
    match arm {
        "fringe-enum" => { let n = enum_space(18, max_len); let dedup = run / n % 2 == 1; let ops: Vec<FringeOp> = decode(run % n, 18, max_len).into_iter().map(fringe_sym).collect(); run_fringe_history(arm, 0, run, agg, Some((dedup, &ops))) }
        "store-enum" => { let n = enum_space(23, max_len); let ops: Vec<CacheOp> = decode(run % n, 23, max_len).into_iter().map(cache_sym).collect(); run_store_history(arm, 0, run, agg, Some(&ops)) }
        "dom-enum" => { let n = enum_space(9, max_len + 2); let use_value = run / n % 2 == 1; let ops: Vec<DomOp> = decode(run % n, 9, max_len + 2).into_iter().map(dom_sym).collect(); run_dom_history(arm, 0, run, agg, Some((use_value, 0, &ops))) }
        _ => None,
    }
}

// =====================================================================================================
pub fn run_history_arm(arm: &str, seed: u64, run: u64, agg: &mut Agg) -> Option<Option<ViolationRecord>> {
    Some(match arm {
        "dd-history" | "dd-history-depthfree" | "dd-history-longarc" | "dd-history-narrow" => run_dd_history(arm, seed, run, agg, None),
        "fringe-history" => run_fringe_history(arm, seed, run, agg, None),
        "store-history" => run_store_history(arm, seed, run, agg, None),
        "dom-history" => run_dom_history(arm, seed, run, agg, None),
        "width-grid" => run_width_grid(seed, run, agg),
        "fringe-enum" | "store-enum" | "dom-enum" => run_enum_arm(arm, run, agg),
        _ => return None,
    })
}
pub fn replay_history(p: &serde_json::Value, agg: &mut Agg) -> Option<ViolationRecord> {
    match p.get("kind").and_then(|k| k.as_str()).unwrap_or("") {
        "dd-history" => { let t: Table = serde_json::from_value(p["table"].clone()).ok()?; let dd: Dd = serde_json::from_value(p["dd"].clone()).ok()?; let ops: Vec<CompileOp> = serde_json::from_value(p["ops"].clone()).ok()?;
            run_dd_history(p["arm"].as_str().unwrap_or("dd-history"), 0, 0, agg, Some((&t, dd, &ops))) }
        "fringe-history" => { let ops: Vec<FringeOp> = serde_json::from_value(p["ops"].clone()).ok()?; run_fringe_history("fringe-history", 0, 0, agg, Some((p["dedup"].as_bool()?, &ops))) }
        "store-history" => { let ops: Vec<CacheOp> = serde_json::from_value(p["ops"].clone()).ok()?; run_store_history("store-history", 0, 0, agg, Some(&ops)) }
        "dom-history" => { let ops: Vec<DomOp> = serde_json::from_value(p["ops"].clone()).ok()?; run_dom_history("dom-history", 0, 0, agg, Some((p["use_value"].as_bool()?, 0, &ops))) }
        _ => None,
    }
}
