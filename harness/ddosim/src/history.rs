//! History arms (engine Q): diagram / fringe / store / dominance operation histories against reference models.
use crate::agg::{Agg, ViolationRecord};

pub fn run_history_arm(_arm: &str, _seed: u64, _run: u64, _agg: &mut Agg) -> Option<Option<ViolationRecord>> { None }
pub fn replay_history(_p: &serde_json::Value, _agg: &mut Agg) -> Option<ViolationRecord> { None }
