//! Aggregation of what the runs of one runner process covered.
use std::collections::BTreeMap;

use serde::{Deserialize, Serialize};

use crate::solve::Violation;

#[derive(Debug, Clone, Default, Serialize, Deserialize)]
pub struct Agg {
    pub runs: u64,
    pub counters: BTreeMap<String, u64>,
    /// hashes of distinct non-trivial cases (union is taken by the driver)
    #[serde(skip)]
    pub distinct: fxhash::FxHashSet<u64>,
    #[serde(skip)]
    pub abstract_states: fxhash::FxHashSet<u64>,
    pub samples: Vec<serde_json::Value>,
    pub max_samples: usize,
}

#[derive(Debug, Clone, Serialize, Deserialize)]
pub struct ViolationRecord {
    pub arm: String,
    pub seed: u64,
    pub run: u64,
    pub violations: Vec<Violation>,
    /// self-contained replay payload (arm specific)
    pub replay: serde_json::Value,
}

impl Agg {
    pub fn new(max_samples: usize) -> Self { Agg { max_samples, ..Default::default() } }
    pub fn add(&mut self, key: &str, n: u64) { if n > 0 { *self.counters.entry(key.to_string()).or_insert(0) += n; } }
    pub fn hit(&mut self, key: &str, cond: bool) { if cond { self.add(key, 1); } else { self.counters.entry(key.to_string()).or_insert(0); } }
    pub fn max(&mut self, key: &str, n: u64) { let e = self.counters.entry(format!("max:{key}")).or_insert(0); *e = (*e).max(n); }
    pub fn sample(&mut self, f: impl FnOnce() -> serde_json::Value) { if self.samples.len() < self.max_samples { self.samples.push(f()); } }
    pub fn distinct_case(&mut self, h: u64) { self.distinct.insert(h); }
    pub fn merge(&mut self, o: Agg) {
        self.runs += o.runs;
        for (k, v) in o.counters { if k.starts_with("max:") { let e = self.counters.entry(k).or_insert(0); *e = (*e).max(v); } else { *self.counters.entry(k).or_insert(0) += v; } }
        self.distinct.extend(o.distinct);
        self.abstract_states.extend(o.abstract_states);
        for s in o.samples { if self.samples.len() < self.max_samples { self.samples.push(s); } }
    }
}

pub fn hash_json<T: Serialize>(x: &T) -> u64 {
    use std::hash::Hasher;
    let s = serde_json::to_vec(x).unwrap();
    let mut h = fxhash::FxHasher::default();
    h.write(&s);
    h.finish()
}
