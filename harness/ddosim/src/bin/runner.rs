//! Child process of the driver: executes runs of one arm for a range of run indices (or one replay file)
//! and streams JSON lines on stdout:
//!   {"violation": ViolationRecord}      one per violating run
//!   {"summary": Agg, "distinct_file": path, "states_file": path, "next": i}   last line (also printed by the fatal hook)
use std::io::Write;
use std::sync::{Arc, Mutex};

use ddosim::agg::{Agg, ViolationRecord};
use ddosim::rng::mix;
use ddosim::{arms, history, solve};

struct Shared { agg: Agg, next: u64, arm: String, base: u64, out_prefix: String, cur_replay: serde_json::Value, cur_seed: u64, run_started: Option<std::time::Instant> }

fn write_sets(sh: &Shared) -> (String, String) {
    let df = format!("{}.distinct", sh.out_prefix);
    let sf = format!("{}.states", sh.out_prefix);
    let dump = |path: &str, set: &fxhash::FxHashSet<u64>| { let mut b = Vec::with_capacity(set.len() * 8); for h in set { b.extend_from_slice(&h.to_le_bytes()); } let _ = std::fs::write(path, b); };
    dump(&df, &sh.agg.distinct); dump(&sf, &sh.agg.abstract_states);
    (df, sf)
}
fn print_summary(sh: &Shared) {
    let (df, sf) = write_sets(sh);
    println!("{}", serde_json::json!({"summary": sh.agg, "distinct_file": df, "states_file": sf, "next": sh.next}));
    let _ = std::io::stdout().flush();
}

fn main() {
    let args: Vec<String> = std::env::args().collect();
    let get = |k: &str| args.iter().position(|a| a == k).and_then(|i| args.get(i + 1)).cloned();
    let mode = args.get(1).cloned().unwrap_or_default();
    // panics of the code under test are observed through catch_unwind / thread exit; keep stderr quiet
    if std::env::var("VERIF_SHOW_PANICS").is_err() { std::panic::set_hook(Box::new(|_| {})); }
    match mode.as_str() {
        "run" => {
            let arm = get("--arm").expect("--arm");
            let base: u64 = get("--seed").and_then(|s| s.parse().ok()).unwrap_or(1);
            let from: u64 = get("--from").and_then(|s| s.parse().ok()).unwrap_or(0);
            let to: u64 = get("--to").and_then(|s| s.parse().ok()).unwrap_or(100);
            let samples: usize = get("--samples").and_then(|s| s.parse().ok()).unwrap_or(2);
            let out_prefix = get("--out").unwrap_or_else(|| format!("/tmp/ddosim_{}", std::process::id()));
            let time_limit: f64 = get("--time").and_then(|s| s.parse().ok()).unwrap_or(1e9);
            let max_viol: usize = get("--max-violations").and_then(|s| s.parse().ok()).unwrap_or(5);
            let sh = Arc::new(Mutex::new(Shared { agg: Agg::new(samples), next: from, arm: arm.clone(), base, out_prefix, cur_replay: serde_json::Value::Null, cur_seed: 0, run_started: None }));
            {
                let sh2 = sh.clone();
                solve::set_fatal_hook(Some(Box::new(move |viol, rep| {
                    // the scheduler declared the run dead (deadlock / step bound): report and let the process die
                    let mut g = sh2.lock().unwrap();
                    let run = g.next;
                    g.agg.runs += 1;
                    g.agg.add("fatal_runs", 1);
                    g.agg.add("sched_steps", rep.stats.steps as u64);
                    // `*-large` arms: the step budget is not provably sufficient there (no rough bound, no cache, narrow width on 16 layers is a
                    // legitimately huge search): exhausting it is INCONCLUSIVE, not a violation. Termination is decided by the small arms,
                    // whose budget is 30 times the longest terminating run ever seen.
                    if g.arm.contains("-large") && viol.class == "step-bound" {
                        g.agg.add("inconclusive:step_budget_exhausted(large arm)", 1);
                        g.next = run + 1;
                        print_summary(&g);
                        return;
                    }
                    let harness = viol.props.is_empty();
                    // pin the schedule that led here
                    let mut replay = g.cur_replay.clone();
                    let mut viol = viol.clone();
                    if let Some(sc) = replay.get_mut("scenario") {
                        sc["strategy"] = serde_json::json!({"Forced": rep.schedule});
                        // non-termination of a pooled solver on a long-arc model is also the business of C15
                        if let Ok(s) = serde_json::from_value::<solve::Scenario>(sc.clone()) {
                            if arms::is_pooled_longarc(&s) && viol.class == "step-bound" { viol.props.push("C15".into()); }
                            // an uninterrupted parallel run that never returns does not report the optimum either
                            if s.parallel && s.cut == ddosim::wrap::CutPlan::Never && !viol.props.is_empty() { viol.props.push("C03".into()); }
                        }
                    }
                    let rec = ViolationRecord { arm: g.arm.clone(), seed: g.cur_seed, run, violations: vec![viol.clone()], replay };
                    println!("{}", serde_json::json!({"violation": rec, "harness_error": harness}));
                    g.next = run + 1;
                    print_summary(&g);
                })));
            }
            // per-run wall-clock watchdog: a run that does not come back (a hang between two scheduling points, e.g. a wake-up
            // that is never delivered although the hook said so, or an endless loop inside a compilation) cannot satisfy any
            // property of the form "maximize() / compile() returns ...": it is reported as a violation (class no-return)
            {
                let shw = sh.clone();
                let limit: f64 = if arm.starts_with("ex-") { 1e9 } else { get("--watchdog").and_then(|s| s.parse().ok()).unwrap_or(if arm.contains("-large") { 300.0 } else { 60.0 }) };
                std::thread::spawn(move || loop {
                    std::thread::sleep(std::time::Duration::from_millis(250));
                    let mut g = shw.lock().unwrap();
                    if let Some(t) = g.run_started { if t.elapsed().as_secs_f64() > limit {
                        let run = g.next;
                        let arm = g.arm.clone();
                        let mut props: Vec<String> = if arm.starts_with("par-") { vec!["C04".into()] } else if arm.starts_with("seq-") { vec!["C01".into()] }
                            else if arm.starts_with("dd-history") { vec!["C06".into(), "C07".into(), "C08".into()] } else if arm == "fringe-history" { vec!["C11".into()] }
                            else if arm == "store-history" { vec!["C18".into()] } else if arm == "dom-history" { vec!["C10".into(), "C18".into()] } else { vec![] };
                        if let Some(sc) = g.cur_replay.get("scenario") { if let Ok(s) = serde_json::from_value::<solve::Scenario>(sc.clone()) { if arms::is_pooled_longarc(&s) { props.push("C15".into()); } } }
                        let viol = solve::Violation { props, class: "no-return".into(), msg: format!("the run did not come back within {limit} s of wall-clock time (a terminating run takes milliseconds): hang between two scheduling points") };
                        g.agg.runs += 1; g.agg.add("fatal_runs", 1); g.agg.add("watchdog_no_return", 1);
                        let rec = ViolationRecord { arm, seed: g.cur_seed, run, violations: vec![viol], replay: g.cur_replay.clone() };
                        println!("{}", serde_json::json!({"violation": rec, "harness_error": false}));
                        g.next = run + 1;
                        print_summary(&g);
                        std::process::exit(3);
                    } }
                });
            }
            let t0 = std::time::Instant::now();
            let mut nviol = 0;
            let mut nother = 0;
            let count_prop = get("--count-prop");
            let mut i = from;
            while i < to {
                if t0.elapsed().as_secs_f64() > time_limit { break; }
                let seed = mix(base, i);
                let rec = {
                    let shc = sh.clone();
                    let pre = move |sc: &solve::Scenario| { let mut g = shc.lock().unwrap(); g.cur_seed = sc.seed; g.cur_replay = serde_json::json!({"kind": "solver", "scenario": sc}); g.run_started = Some(std::time::Instant::now()); };
                    { let mut g = sh.lock().unwrap(); g.next = i; g.cur_seed = seed; g.cur_replay = serde_json::json!({"kind": "seed", "arm": arm, "seed": seed}); g.run_started = Some(std::time::Instant::now()); }
                    // every run has its own small aggregator, merged afterwards (the fatal hook needs the shared one)
                    let mut agg = { let g = sh.lock().unwrap(); Agg::new(g.agg.max_samples - g.agg.samples.len().min(g.agg.max_samples)) };
                    let r = if arms::solver_arm_opts(&arm).is_some() { arms::run_solver_arm(&arm, seed, i, &mut agg, &pre) }
                        else if arm.starts_with("par-preempt-sweep") { arms::run_preempt_sweep(&arm, seed, i, &mut agg, &pre) }
                        else if arm.starts_with("seq-sweep") || arm == "par-sweep" { arms::run_seq_sweep(&arm, seed, i, &mut agg, None) }
                        else if arm.starts_with("ex-") { ddosim::exgen::run_example_arm(&arm, seed, i, &mut agg, None).unwrap_or_else(|| { eprintln!("unknown example arm {arm}"); std::process::exit(2) }) }
                        else { history::run_history_arm(&arm, seed, i, &mut agg).unwrap_or_else(|| { eprintln!("unknown arm {arm}"); std::process::exit(2) }) };
                    { let mut g = sh.lock().unwrap(); g.agg.merge(agg); g.run_started = None; }
                    r
                };
                i += 1;
                sh.lock().unwrap().next = i;
                if let Some(rec) = rec {
                    let harness = rec.violations.iter().any(|v| v.props.is_empty());
                    // only violations of the property being checked count towards the early stop; others are reported (a few) and the run goes on
                    let mine = count_prop.as_ref().map_or(true, |p| harness || rec.violations.iter().any(|v| v.props.iter().any(|q| q == p)));
                    if mine { println!("{}", serde_json::json!({"violation": rec, "harness_error": harness})); nviol += 1; if nviol >= max_viol { break; } }
                    else if nother < 10 { nother += 1; println!("{}", serde_json::json!({"violation": rec, "harness_error": harness})); }
                }
            }
            print_summary(&sh.lock().unwrap());
        }
        "digest" => {
            // determinism proof: prints one line per run with a digest of EVERYTHING the run produced (full outcome incl. schedule)
            let arm = get("--arm").expect("--arm");
            let base: u64 = get("--seed").and_then(|s| s.parse().ok()).unwrap_or(1);
            let from: u64 = get("--from").and_then(|s| s.parse().ok()).unwrap_or(0);
            let to: u64 = get("--to").and_then(|s| s.parse().ok()).unwrap_or(100);
            solve::set_fatal_hook(Some(Box::new(move |viol, rep| { println!("FATAL {} {:?} steps={} trace={:x}", viol.class, rep.fatal, rep.stats.steps, rep.stats.trace_hash); })));
            for i in from..to {
                let seed = mix(base, i);
                let line = if let Some(o) = arms::solver_arm_opts(&arm) {
                    let sc = solve::generate(&arm, seed, o);
                    let out = solve::execute(&sc);
                    format!("{:016x}", ddosim::agg::hash_json(&out))
                } else {
                    let mut agg = Agg::new(0);
                    let r = if arm.starts_with("par-preempt-sweep") { arms::run_preempt_sweep(&arm, seed, i, &mut agg, &|_| {}) } else if arm.starts_with("seq-sweep") || arm == "par-sweep" { arms::run_seq_sweep(&arm, seed, i, &mut agg, None) } else { history::run_history_arm(&arm, seed, i, &mut agg).flatten() };
                    format!("{:016x}", ddosim::agg::hash_json(&(r.map(|x| x.violations), &agg.counters)))
                };
                println!("{i} {line}");
            }
        }
        "replay" => {
            let path = args.get(2).expect("replay file");
            let txt = std::fs::read_to_string(path).expect("cannot read replay file");
            let v: serde_json::Value = serde_json::from_str(&txt).expect("replay file is not JSON");
            let payload = v.get("replay").cloned().unwrap_or(v.clone());
            let mut agg = Agg::new(1);
            let sh = Arc::new(Mutex::new(None::<ViolationRecord>));
            {
                let p2 = payload.clone();
                solve::set_fatal_hook(Some(Box::new(move |viol, _rep| {
                    // same rule as in run mode: an exhausted step budget on a `*-large` scenario is inconclusive
                    let large = p2.get("scenario").and_then(|s| s.get("max_steps")).and_then(|m| m.as_u64()).map_or(false, |m| m >= 2_000_000);
                    if large && viol.class == "step-bound" { println!("{}", serde_json::json!({"clean": true, "inconclusive": "step budget exhausted on a large scenario"})); return; }
                    let rec = ViolationRecord { arm: "replay".into(), seed: 0, run: 0, violations: vec![viol.clone()], replay: p2.clone() };
                    println!("{}", serde_json::json!({"violation": rec, "harness_error": viol.props.is_empty()}));
                })));
            }
            let rec = replay_payload(&payload, &mut agg);
            *sh.lock().unwrap() = rec.clone();
            match rec { Some(r) => println!("{}", serde_json::json!({"violation": r, "harness_error": r.violations.iter().any(|v| v.props.is_empty())})), None => println!("{}", serde_json::json!({"clean": true})) }
        }
        _ => { eprintln!("usage: runner run --arm A --seed S --from i --to j | runner replay FILE"); std::process::exit(2); }
    }
}

fn replay_payload(p: &serde_json::Value, agg: &mut Agg) -> Option<ViolationRecord> {
    let kind = p.get("kind").and_then(|k| k.as_str()).unwrap_or("");
    match kind {
        "solver" => { let sc: solve::Scenario = serde_json::from_value(p["scenario"].clone()).expect("bad scenario"); arms::run_scenario(&sc, 0, agg, &|_| {}) }
        "seq-sweep" => { let sc: solve::Scenario = serde_json::from_value(p["scenario"].clone()).expect("bad scenario"); arms::run_seq_sweep(&sc.arm.clone(), sc.seed, 0, agg, Some(&sc)) }
        "seed" => {
            let arm = p["arm"].as_str().unwrap().to_string(); let seed = p["seed"].as_u64().unwrap();
            if arms::solver_arm_opts(&arm).is_some() { arms::run_solver_arm(&arm, seed, 0, agg, &|_| {}) } else if arm.starts_with("seq-sweep") || arm == "par-sweep" { arms::run_seq_sweep(&arm, seed, 0, agg, None) } else { history::run_history_arm(&arm, seed, 0, agg).flatten() }
        }
        "example" => ddosim::exgen::run_example_arm(p["arm"].as_str().unwrap_or(""), 0, 0, agg, Some(p)).flatten(),
        _ => history::replay_history(p, agg),
    }
}
