//! Online monitors of the callback protocol (C12) and of the width bound (C13).
//! `MonProblem` / `MonRelax` forward to the generated model and check, per
//! worker thread (every worker owns its diagram), that the library calls the
//! user code coherently.
use std::cell::RefCell;
use std::fmt::Debug;
use std::sync::atomic::{AtomicUsize, Ordering};

use ddo::{Decision, DecisionCallback, Problem, Relaxation, Variable};

use crate::wrap::report_violation;

#[derive(Default)]
struct ThreadMon {
    /// width in force and root depth of the sub-problem being processed (solver runs: set by SimWidth; dd-history: set by the arm)
    width: Option<usize>,
    root_depth: usize,
    /// number of compilations started for the current sub-problem (1 = restricted, 2 = relaxed in solver runs)
    compile_no: usize,
    /// explicit compilation type when known (dd-history): 0 exact 1 relaxed 2 restricted
    explicit_type: Option<u8>,
    cur_var: Option<Variable>,
    cur_depth: usize,
    expansions_in_layer: usize,
    merged_since_next_variable: bool,
    seen_first: bool,
}
thread_local! {
    static MON: RefCell<ThreadMon> = RefCell::new(ThreadMon::default());
}
/// the width bound is only promised for models in which every variable impacts every state
pub static C13_ENABLED: std::sync::atomic::AtomicBool = std::sync::atomic::AtomicBool::new(true);
pub static MAX_EXPANSIONS_SEEN: AtomicUsize = AtomicUsize::new(0);
pub static LAYERS_AT_WIDTH: AtomicUsize = AtomicUsize::new(0);
pub static LAYERS_CHECKED: AtomicUsize = AtomicUsize::new(0);
pub static RELAX_CALLS: AtomicUsize = AtomicUsize::new(0);
pub static MERGE_CALLS: AtomicUsize = AtomicUsize::new(0);
pub static TC_CALLS: AtomicUsize = AtomicUsize::new(0);
pub static DOMAIN_CALLS: AtomicUsize = AtomicUsize::new(0);
pub static NEXTVAR_CALLS: AtomicUsize = AtomicUsize::new(0);
/// merges whose result equals a state already present in the layer and kept (ddo then recycles that node)
pub static RECYCLED_MERGES: AtomicUsize = AtomicUsize::new(0);

pub fn reset_counters() {
    for c in [&MAX_EXPANSIONS_SEEN, &LAYERS_AT_WIDTH, &LAYERS_CHECKED, &RELAX_CALLS, &MERGE_CALLS, &TC_CALLS, &DOMAIN_CALLS, &NEXTVAR_CALLS, &RECYCLED_MERGES] { c.store(0, Ordering::Relaxed); }
    MON.with(|m| *m.borrow_mut() = ThreadMon::default());
}

/// solver runs: called by SimWidth when a worker starts a new sub-problem
pub fn on_new_subproblem(width: usize, root_depth: usize) {
    MON.with(|m| { let mut m = m.borrow_mut(); close_layer(&mut m); m.width = Some(width); m.root_depth = root_depth; m.compile_no = 0; m.explicit_type = None; m.cur_var = None; m.seen_first = false; });
}
/// dd-history: called by the arm before each compile (ctype: 0 exact 1 relaxed 2 restricted)
pub fn on_explicit_compile(width: usize, root_depth: usize, ctype: u8) {
    MON.with(|m| { let mut m = m.borrow_mut(); close_layer(&mut m); m.width = Some(width); m.root_depth = root_depth; m.compile_no = 0; m.explicit_type = Some(ctype); m.cur_var = None; m.seen_first = false; });
}
/// must be called when a compile is over (or abandoned) so that the last layer is accounted for
pub fn on_compile_end() { MON.with(|m| { let mut m = m.borrow_mut(); close_layer(&mut m); m.cur_var = None; }); }

fn close_layer(m: &mut ThreadMon) {
    // evaluates the C13 bound for the layer that has just been expanded
    if m.cur_var.is_none() { return; }
    let n = m.expansions_in_layer;
    if !C13_ENABLED.load(Ordering::Relaxed) { m.expansions_in_layer = 0; return; }
    if let Some(w) = m.width {
        let rel = m.cur_depth.saturating_sub(m.root_depth);
        // solver runs do not tell which kind of compilation is under way (and the order restricted-then-relaxed is an
        // implementation choice, not part of C13): only the bound common to both kinds is evaluated there; the
        // restricted-only clause (the layer right below the root) is evaluated by the dd-history arms, which know the kind
        let ctype = m.explicit_type.unwrap_or(1);
        let bounded = match ctype { 2 => true, 1 => rel >= 2, _ => false };
        if bounded {
            LAYERS_CHECKED.fetch_add(1, Ordering::Relaxed);
            if n == w { LAYERS_AT_WIDTH.fetch_add(1, Ordering::Relaxed); }
            MAX_EXPANSIONS_SEEN.fetch_max(n, Ordering::Relaxed);
            if n > w {
                report_violation("C13", format!("{} states expanded in one layer (depth {}, {} layers below the root) of a {} compilation with max_width {}",
                    n, m.cur_depth, rel, if m.explicit_type.is_none() { "restricted or relaxed" } else if ctype == 2 { "restricted" } else { "relaxed" }, w));
            }
        }
    }
    m.expansions_in_layer = 0;
}

pub struct MonProblem<'a, P: Problem> {
    pub inner: &'a P,
    /// depth embedded in a state, when the model has one
    pub depth_of: fn(&P::State) -> Option<usize>,
    /// all variables impact all states in this model (C13 premise)
    pub all_relevant: bool,
}
thread_local! {
    static LAYER_STATES: RefCell<Vec<Box<dyn std::any::Any>>> = RefCell::new(vec![]);
    static LAST_MERGE: RefCell<Option<Box<dyn std::any::Any>>> = RefCell::new(None);
}
struct MergeRec<S> { inputs: Vec<S>, merged: S }

impl<'a, P: Problem> MonProblem<'a, P> where P::State: Clone + Eq + Debug + 'static {
    fn domain_of(&self, var: Variable, st: &P::State) -> Vec<isize> { let mut v = vec![]; self.inner.for_each_in_domain(var, st, &mut |d: Decision| v.push(d.value)); v }
    pub fn check_arc(&self, who: &str, src: &P::State, dst: &P::State, d: Decision) {
        let expect = self.inner.transition(src, d);
        if expect != *dst { report_violation("C12", format!("{who}: dst {:?} is not transition(src {:?}, {:?}) = {:?}", dst, src, d, expect)); }
        if !self.domain_of(d.variable, src).contains(&d.value) { report_violation("C12", format!("{who}: decision {:?} is not in the domain of its variable at src {:?}", d, src)); }
    }
}
impl<'a, P: Problem> Problem for MonProblem<'a, P> where P::State: Clone + Eq + Debug + 'static {
    type State = P::State;
    fn nb_variables(&self) -> usize { self.inner.nb_variables() }
    fn initial_state(&self) -> P::State { self.inner.initial_state() }
    fn initial_value(&self) -> isize { self.inner.initial_value() }
    fn transition(&self, state: &P::State, decision: Decision) -> P::State { self.inner.transition(state, decision) }
    fn transition_cost(&self, source: &P::State, dest: &P::State, decision: Decision) -> isize {
        TC_CALLS.fetch_add(1, Ordering::Relaxed);
        self.check_arc("transition_cost", source, dest, decision);
        self.inner.transition_cost(source, dest, decision)
    }
    fn next_variable(&self, depth: usize, next_layer: &mut dyn Iterator<Item = &P::State>) -> Option<Variable> {
        NEXTVAR_CALLS.fetch_add(1, Ordering::Relaxed);
        let states: Vec<P::State> = next_layer.cloned().collect();
        for s in states.iter() {
            if let Some(d) = (self.depth_of)(s) {
                if d != depth { report_violation("C12", format!("next_variable called with depth {} for a layer containing state {:?} which lies {} layers below the problem root", depth, s, d)); break; }
            }
        }
        let var = self.inner.next_variable(depth, &mut states.iter());
        if crate::sched::trace_on() { eprintln!("[mon] next_variable depth={} layer={:?} -> {:?}", depth, states, var); }
        MON.with(|m| {
            let mut m = m.borrow_mut();
            close_layer(&mut m);
            // depth protocol: a compilation starts at the depth of its sub-problem and goes down one layer at a time
            if m.width.is_some() {
                let ok = depth == m.root_depth || (m.seen_first && depth == m.cur_depth + 1);
                if !ok { report_violation("C12", format!("next_variable called with depth {} although the sub-problem being compiled lies {} layers below the problem root{}", depth, m.root_depth, if m.seen_first { format!(" and the previous layer was at depth {}", m.cur_depth) } else { String::new() })); }
                m.seen_first = true;
            }
            if m.width.is_some() && depth == m.root_depth { m.compile_no += 1; }
            m.cur_var = var; m.cur_depth = depth; m.expansions_in_layer = 0; m.merged_since_next_variable = false;
        });
        LAYER_STATES.with(|l| { let mut l = l.borrow_mut(); l.clear(); for s in states { l.push(Box::new(s)); } });
        var
    }
    fn for_each_in_domain(&self, var: Variable, state: &P::State, f: &mut dyn DecisionCallback) {
        DOMAIN_CALLS.fetch_add(1, Ordering::Relaxed);
        let (cur, merged_since) = MON.with(|m| { let mut m = m.borrow_mut(); m.expansions_in_layer += 1; (m.cur_var, m.merged_since_next_variable) });
        if cur != Some(var) { report_violation("C12", format!("for_each_in_domain called for {:?} but next_variable selected {:?} for the current layer", var, cur)); }
        let in_layer = LAYER_STATES.with(|l| l.borrow().iter().any(|b| b.downcast_ref::<P::State>().map_or(false, |s| s == state)));
        if !in_layer {
            let is_merged = merged_since && LAST_MERGE.with(|lm| lm.borrow().as_ref().and_then(|b| b.downcast_ref::<MergeRec<P::State>>().map(|r| r.merged == *state)).unwrap_or(false));
            if !is_merged { report_violation("C12", format!("for_each_in_domain called for state {:?} which is neither in the layer handed to next_variable nor the state just created by merge", state)); }
        }
        self.inner.for_each_in_domain(var, state, f)
    }
    fn is_impacted_by(&self, var: Variable, state: &P::State) -> bool { self.inner.is_impacted_by(var, state) }
}

pub struct MonRelax<'a, P: Problem, R: Relaxation<State = P::State>> { pub pb: &'a MonProblem<'a, P>, pub inner: &'a R }
impl<'a, P: Problem, R: Relaxation<State = P::State>> Relaxation for MonRelax<'a, P, R> where P::State: Clone + Eq + Debug + 'static {
    type State = P::State;
    fn merge(&self, states: &mut dyn Iterator<Item = &P::State>) -> P::State {
        MERGE_CALLS.fetch_add(1, Ordering::Relaxed);
        let inputs: Vec<P::State> = states.cloned().collect();
        if inputs.len() < 2 { report_violation("C12", format!("merge called with {} state(s)", inputs.len())); }
        let depths: Vec<Option<usize>> = inputs.iter().map(|s| (self.pb.depth_of)(s)).collect();
        if depths.windows(2).any(|w| w[0] != w[1]) { report_violation("C12", format!("merge called on states of different layers: {:?}", inputs)); }
        let merged = self.inner.merge(&mut inputs.iter());
        if crate::sched::trace_on() { eprintln!("[mon] merge {:?} -> {:?}", inputs, merged); }
        MON.with(|m| m.borrow_mut().merged_since_next_variable = true);
        if !inputs.contains(&merged) && LAYER_STATES.with(|l| l.borrow().iter().any(|b| b.downcast_ref::<P::State>().map_or(false, |s| *s == merged))) { RECYCLED_MERGES.fetch_add(1, Ordering::Relaxed); }
        LAST_MERGE.with(|lm| *lm.borrow_mut() = Some(Box::new(MergeRec { inputs, merged: merged.clone() })));
        merged
    }
    fn relax(&self, source: &P::State, dest: &P::State, new: &P::State, decision: Decision, cost: isize) -> isize {
        RELAX_CALLS.fetch_add(1, Ordering::Relaxed);
        self.pb.check_arc("relax", source, dest, decision);
        let expect = self.pb.inner.transition_cost(source, dest, decision);
        if expect != cost { report_violation("C12", format!("relax called with cost {} but the cost of arc ({:?} --{:?}--> {:?}) is {}", cost, source, decision, dest, expect)); }
        LAST_MERGE.with(|lm| {
            match lm.borrow().as_ref().and_then(|b| b.downcast_ref::<MergeRec<P::State>>()) {
                None => report_violation("C12", "relax called although merge was never called".to_string()),
                Some(r) => {
                    if r.merged != *new { report_violation("C12", format!("relax called with merged = {:?} but merge just returned {:?}", new, r.merged)); }
                    if !r.inputs.contains(dest) { report_violation("C12", format!("relax called with dst = {:?} which is not one of the states just merged {:?}", dest, r.inputs)); }
                }
            }
        });
        self.inner.relax(source, dest, new, decision, cost)
    }
    fn fast_upper_bound(&self, state: &P::State) -> isize { self.inner.fast_upper_bound(state) }
}
