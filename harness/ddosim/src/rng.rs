//! The only source of randomness in the simulator: SplitMix64.
#[derive(Debug, Clone)]
pub struct Rng(pub u64);
impl Rng {
    pub fn new(seed: u64) -> Self { let mut r = Rng(seed ^ 0xD1B54A32D192ED03); r.next(); r }
    /// derive an independent stream
    pub fn fork(&mut self, tag: u64) -> Rng { let a = self.next(); Rng::new(a ^ tag.wrapping_mul(0x9E3779B97F4A7C15)) }
    #[inline]
    pub fn next(&mut self) -> u64 {
        self.0 = self.0.wrapping_add(0x9E3779B97F4A7C15);
        let mut z = self.0;
        z = (z ^ (z >> 30)).wrapping_mul(0xBF58476D1CE4E5B9);
        z = (z ^ (z >> 27)).wrapping_mul(0x94D049BB133111EB);
        z ^ (z >> 31)
    }
    /// uniform in 0..n (n > 0)
    #[inline]
    pub fn below(&mut self, n: usize) -> usize { (self.next() % n as u64) as usize }
    /// uniform in lo..=hi
    #[inline]
    pub fn range(&mut self, lo: isize, hi: isize) -> isize { lo + (self.next() % ((hi - lo + 1) as u64)) as isize }
    /// true with probability num/den
    #[inline]
    pub fn chance(&mut self, num: u64, den: u64) -> bool { self.next() % den < num }
    pub fn pick<'a, T>(&mut self, xs: &'a [T]) -> &'a T { &xs[self.below(xs.len())] }
}
/// stateless keyed hash (used for per-sub-problem perturbations that must not depend on a call counter)
pub fn mix(a: u64, b: u64) -> u64 { let mut r = Rng(a ^ b.wrapping_mul(0x9E3779B97F4A7C15)); r.next(); r.next() }
