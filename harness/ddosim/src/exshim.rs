//! Entry point shared by the example binaries (C16): installs engine S around the example's real main().
//! Configuration comes from the environment (set by the driver):
//!   VERIF_EX_THREADS   number of worker threads the example will start (0: sequential example, no scheduler)
//!   VERIF_EX_SEED      scheduler seed
//!   VERIF_EX_STRATEGY  JSON of sched::Strategy (optional; drawn from the seed otherwise)
//! Afterwards a line `SIM-REPORT {json}` is printed. A deadlock / step bound prints `SIM-FATAL <class>` and exits 3;
//! a panic of the example prints `SIM-PANIC <msg>` and exits 4.
use std::panic::{catch_unwind, AssertUnwindSafe};

use crate::rng::Rng;
use crate::sched::{draw_strategy, Sched, Strategy};

pub fn run(f: impl FnOnce()) {
    let threads: usize = std::env::var("VERIF_EX_THREADS").ok().and_then(|s| s.parse().ok()).unwrap_or(0);
    let seed: u64 = std::env::var("VERIF_EX_SEED").ok().and_then(|s| s.parse().ok()).unwrap_or(1);
    let max_steps: usize = std::env::var("VERIF_EX_MAX_STEPS").ok().and_then(|s| s.parse().ok()).unwrap_or(300_000);
    std::panic::set_hook(Box::new(|_| {}));
    let sched = if threads > 0 {
        let mut rng = Rng::new(seed);
        let strategy: Strategy = std::env::var("VERIF_EX_STRATEGY").ok().and_then(|s| serde_json::from_str(&s).ok()).unwrap_or_else(|| draw_strategy(&mut rng, threads, false));
        Some(Sched::install(threads, rng.next(), strategy, max_steps, Box::new(|f, rep| {
            println!("SIM-FATAL {:?} steps={} states={:?}", f, rep.stats.steps, rep.thread_states);
            use std::io::Write; let _ = std::io::stdout().flush();
        })))
    } else { None };
    let r = catch_unwind(AssertUnwindSafe(f));
    let rep = sched.map(|s| s.uninstall());
    if let Err(e) = r {
        let m = e.downcast_ref::<String>().cloned().or_else(|| e.downcast_ref::<&str>().map(|s| s.to_string())).unwrap_or_else(|| "panic".into());
        println!("SIM-PANIC {}", m.replace('\n', " "));
        std::process::exit(4);
    }
    match rep {
        Some(rep) => println!("SIM-REPORT {}", serde_json::json!({"steps": rep.stats.steps, "switches": rep.stats.switches, "preemptions": rep.stats.preemptions, "cond_waits": rep.stats.cond_waits,
            "max_concurrent_processing": rep.stats.max_concurrent_processing, "trace_hash": rep.stats.trace_hash, "worker_panicked": rep.stats.worker_panicked, "premature_exit": rep.stats.premature_exit,
            "abstract_states": rep.stats.abstract_states, "multi_wake": rep.stats.multi_wake})),
        None => println!("SIM-REPORT {}", serde_json::json!({"steps": 0, "sequential": true})),
    }
}
