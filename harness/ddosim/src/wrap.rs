//! Harness-side seams: wrappers around the traits through which ddo talks to
//! its environment. They add yield points for engine S, inject faults, and
//! record what happened.
use std::fmt::Debug;
use std::hash::Hash;
use std::sync::atomic::{AtomicBool, AtomicUsize, Ordering};
use std::sync::{Arc, Mutex};

use ddo::{Cache, Cutoff, DominanceCheckResult, DominanceChecker, Fringe, Problem, SubProblem, Threshold, WidthHeuristic};
use serde::{Deserialize, Serialize};

use crate::rng::mix;
use crate::sched::{self, yk};

// ---------------------------------------------------------------------------
// global per-run context (one run at a time per process)
// ---------------------------------------------------------------------------
#[derive(Debug, Default)]
pub struct RunCtx {
    pub cache_lossy_per_mille: AtomicUsize,
    pub cache_seed: AtomicUsize,
    pub cache_gets: AtomicUsize,
    pub cache_hits: AtomicUsize,
    pub cache_updates: AtomicUsize,
    pub cache_dropped: AtomicUsize,
    pub cache_clear_layers: AtomicUsize,
    pub cache_clears: AtomicUsize,
    pub cache_get_saw_foreign_write: AtomicUsize,
    pub clear_layer_while_peer_compiles: AtomicUsize,
    pub must_explore_false: AtomicUsize,
    pub dom_checks: AtomicUsize,
    pub dom_dominated: AtomicUsize,
    pub dom_weakened: AtomicUsize,
    pub violations: Mutex<Vec<(String, String)>>,
}
static CTX: Mutex<Option<Arc<RunCtx>>> = Mutex::new(None);
pub fn new_run_ctx() -> Arc<RunCtx> { let c = Arc::new(RunCtx::default()); *CTX.lock().unwrap() = Some(c.clone()); c }
pub fn ctx() -> Arc<RunCtx> { CTX.lock().unwrap().clone().unwrap_or_default() }
pub fn report_violation(prop: &str, msg: String) { let c = ctx(); let mut v = c.violations.lock().unwrap(); if v.len() < 20 { v.push((prop.to_string(), msg)); } }

// ---------------------------------------------------------------------------
// Cutoff
// ---------------------------------------------------------------------------
#[derive(Debug, Clone, Serialize, Deserialize, PartialEq, Eq)]
pub enum CutPlan {
    Never,
    /// answers "stop" from the k-th poll on (1-based, global over all workers)
    At(usize),
    /// answers "stop" only for polls in from..to (a user Cutoff is not required to be monotone) - termination only
    Flaky(usize, usize),
}
pub struct SimCutoff { pub plan: CutPlan, pub polls: AtomicUsize, pub fired: AtomicBool }
impl SimCutoff {
    pub fn new(plan: CutPlan) -> Self { SimCutoff { plan, polls: AtomicUsize::new(0), fired: AtomicBool::new(false) } }
    pub fn polls(&self) -> usize { self.polls.load(Ordering::SeqCst) }
    pub fn fired(&self) -> bool { self.fired.load(Ordering::SeqCst) }
}
impl Cutoff for SimCutoff {
    fn must_stop(&self) -> bool {
        sched::yield_point(yk::CUTOFF);
        let k = self.polls.fetch_add(1, Ordering::SeqCst) + 1;
        let stop = match self.plan { CutPlan::Never => false, CutPlan::At(f) => k >= f, CutPlan::Flaky(a, b) => k >= a && k < b };
        if sched::trace_on() { eprintln!("[cutoff] {:?} poll {} -> {}", sched::current_tid(), k, stop); }
        if stop { self.fired.store(true, Ordering::SeqCst); }
        stop
    }
}

// ---------------------------------------------------------------------------
// Width
// ---------------------------------------------------------------------------
#[derive(Debug, Clone, Serialize, Deserialize, PartialEq, Eq)]
pub enum WidthPlan { Fixed(usize), Jitter { seed: u64, max: usize } }
thread_local! {
    /// (width in force, root depth) of the sub-problem currently processed by this thread (for the C13 monitor)
    pub static WIDTH_IN_FORCE: std::cell::Cell<Option<(usize, usize)>> = const { std::cell::Cell::new(None) };
}
pub struct SimWidth<S> { pub plan: WidthPlan, pub key: fn(&S) -> u64 }
impl<S> WidthHeuristic<S> for SimWidth<S> {
    fn max_width(&self, sub: &SubProblem<S>) -> usize {
        sched::yield_point(yk::WIDTH);
        let w = match self.plan {
            WidthPlan::Fixed(w) => w,
            WidthPlan::Jitter { seed, max } => 1 + (mix(seed, (self.key)(&sub.state) ^ (sub.depth as u64) << 40 ^ (sub.value as u64) << 48) % max as u64) as usize,
        };
        WIDTH_IN_FORCE.with(|c| c.set(Some((w, sub.depth))));
        crate::monitor::on_new_subproblem(w, sub.depth);
        w
    }
}

// ---------------------------------------------------------------------------
// Cache
// ---------------------------------------------------------------------------
/// Wraps a real cache: every operation is a scheduling point (engine S); optionally lossy (a cache may forget).
pub struct SchedCache<C> { inner: C, last_writer: Mutex<fxhash::FxHashMap<u64, usize>> }
impl<C: Default> Default for SchedCache<C> { fn default() -> Self { SchedCache { inner: C::default(), last_writer: Default::default() } } }
fn key_of<S: Hash>(s: &S, depth: usize) -> u64 { use std::hash::Hasher; let mut h = fxhash::FxHasher::default(); s.hash(&mut h); depth.hash(&mut h); h.finish() }
impl<C> Cache for SchedCache<C> where C: Cache, C::State: Hash + 'static {
    type State = C::State;
    fn initialize(&mut self, problem: &dyn Problem<State = Self::State>) { self.inner.initialize(problem) }
    fn must_explore(&self, subproblem: &SubProblem<Self::State>) -> bool {
        // same logic as the provided method (kept here so that get_threshold goes through the wrapper)
        let r = match self.get_threshold(subproblem.state.as_ref(), subproblem.depth) {
            Some(t) => subproblem.value > t.value || (subproblem.value == t.value && !t.explored),
            None => true,
        };
        if !r { ctx().must_explore_false.fetch_add(1, Ordering::Relaxed); }
        r
    }
    fn get_threshold(&self, state: &Self::State, depth: usize) -> Option<Threshold> {
        sched::yield_point(yk::CACHE_GET);
        let c = ctx();
        c.cache_gets.fetch_add(1, Ordering::Relaxed);
        let lossy = c.cache_lossy_per_mille.load(Ordering::Relaxed);
        let r = self.inner.get_threshold(state, depth);
        if r.is_some() {
            if lossy > 0 {
                let n = c.cache_gets.load(Ordering::Relaxed);
                if (mix(c.cache_seed.load(Ordering::Relaxed) as u64, n as u64) % 1000) < lossy as u64 { c.cache_dropped.fetch_add(1, Ordering::Relaxed); return None; }
            }
            c.cache_hits.fetch_add(1, Ordering::Relaxed);
            if let Some(me) = sched::current_tid() {
                if let Some(w) = self.last_writer.lock().unwrap().get(&key_of(state, depth)) { if *w != me { c.cache_get_saw_foreign_write.fetch_add(1, Ordering::Relaxed); } }
            }
        }
        r
    }
    fn update_threshold(&self, state: Arc<Self::State>, depth: usize, value: isize, explored: bool) {
        sched::yield_point(yk::CACHE_UPD);
        let c = ctx();
        let n = c.cache_updates.fetch_add(1, Ordering::Relaxed);
        let lossy = c.cache_lossy_per_mille.load(Ordering::Relaxed);
        if lossy > 0 && (mix(c.cache_seed.load(Ordering::Relaxed) as u64 ^ 0x55, n as u64) % 1000) < lossy as u64 { c.cache_dropped.fetch_add(1, Ordering::Relaxed); return; }
        if let Some(me) = sched::current_tid() { self.last_writer.lock().unwrap().insert(key_of(state.as_ref(), depth), me); }
        if let Some(ts) = (state.as_ref() as &dyn std::any::Any).downcast_ref::<crate::table::TState>() { let mut l = THRESHOLD_LOG.lock().unwrap(); if l.len() < 100_000 { l.push((ts.set, depth, value, explored)); } }
        self.inner.update_threshold(state, depth, value, explored)
    }
    fn clear_layer(&self, depth: usize) {
        sched::yield_point(yk::CACHE_CLEAR_LAYER);
        ctx().cache_clear_layers.fetch_add(1, Ordering::Relaxed);
        self.inner.clear_layer(depth)
    }
    fn clear(&self) {
        sched::yield_point(yk::CACHE_CLEAR);
        ctx().cache_clears.fetch_add(1, Ordering::Relaxed);
        self.inner.clear()
    }
}

// ---------------------------------------------------------------------------
// Dominance
// ---------------------------------------------------------------------------
/// Wraps a real dominance checker: the check-and-insert is a scheduling point; optionally weakened
/// (answers "not dominated" although the real checker said dominated - still admissible).
pub struct SchedDominance<D> { pub inner: D, pub weaken_per_mille: usize, pub seed: u64 }
impl<D> DominanceChecker for SchedDominance<D> where D: DominanceChecker {
    type State = D::State;
    fn clear_layer(&self, depth: usize) { sched::yield_point(yk::DOM_CLEAR); self.inner.clear_layer(depth) }
    fn is_dominated_or_insert(&self, state: Arc<Self::State>, depth: usize, value: isize) -> DominanceCheckResult {
        sched::yield_point(yk::DOM);
        let c = ctx();
        let n = c.dom_checks.fetch_add(1, Ordering::Relaxed);
        let dbg = if sched::trace_on() { Some(state.clone()) } else { None };
        let r = self.inner.is_dominated_or_insert(state, depth, value);
        if let Some(st) = dbg { eprintln!("[dom] check depth={} value={} -> dominated={} thr={:?} state={:?}", depth, value, r.dominated, r.threshold, crate::wrap::DebugAny(&*st)); }
        if r.dominated {
            if self.weaken_per_mille > 0 && (mix(self.seed, n as u64) % 1000) < self.weaken_per_mille as u64 {
                c.dom_weakened.fetch_add(1, Ordering::Relaxed);
                return DominanceCheckResult { dominated: false, threshold: None };
            }
            c.dom_dominated.fetch_add(1, Ordering::Relaxed);
        }
        r
    }
    fn cmp(&self, a: &Self::State, val_a: isize, b: &Self::State, val_b: isize) -> std::cmp::Ordering { self.inner.cmp(a, val_a, b, val_b) }
}

// ---------------------------------------------------------------------------
// Fringe
// ---------------------------------------------------------------------------
#[derive(Debug, Clone, Default, Serialize, Deserialize)]
pub struct FringeStats { pub pushes: usize, pub pops: usize, pub clears: usize, pub coalesced: usize, pub coalesced_diff_ub: usize, pub max_len: usize,
    /// pushes of a sub-problem that had already been popped (same state, depth and path): a cut-set that makes no progress (signature of finding D5)
    #[serde(default)] pub repush_of_popped: usize }
/// same counter, readable from the fatal hook of the scheduler
/// every threshold published through `SchedCache` during the current run: (state set, depth, theta, explored); table-model states only
pub static THRESHOLD_LOG: Mutex<Vec<(u32, usize, isize, bool)>> = Mutex::new(Vec::new());
/// every sub-problem pushed on the checked fringe during the current run: (state key of `key_of`, depth, value)
pub static PUSH_LOG: Mutex<Vec<(u64, usize, isize)>> = Mutex::new(Vec::new());
pub static REPUSH_OF_POPPED: AtomicUsize = AtomicUsize::new(0);
/// (state key, depth) of the first re-pushed sub-problems (readable from the fatal hook); the key comes from `CheckedFringe::key_of`
pub static REPUSHED_KEYS: Mutex<Vec<(u64, usize)>> = Mutex::new(Vec::new());

/// Runs a reference multiset next to the real fringe and compares every operation (C11 in situ).
/// `dedup`: the wrapped fringe is allowed to coalesce entries that denote the same sub-problem (state, depth).
pub struct CheckedFringe<F: Fringe> where F::State: Clone {
    pub inner: F,
    pub dedup: bool,
    pub reference: Vec<SubProblem<F::State>>,
    /// per reference entry: the paths of coalesced pushes whose value TIES with the survivor's (C11 lets the survivor keep either)
    alt_paths: Vec<Vec<Vec<ddo::Decision>>>,
    pub stats: FringeStats,
    pub errors: Vec<String>,
    /// max number of pops before the run is declared non-terminating (C01/C15 step bound); 0 = unbounded
    pub pop_bound: usize,
    popped: Vec<(F::State, usize, Vec<ddo::Decision>)>,
    /// the first few sub-problems that were pushed although they had already been popped (state, depth)
    pub repushed: Vec<(F::State, usize)>,
    pub key_of: Option<fn(&F::State) -> u64>,
}
impl<F: Fringe> CheckedFringe<F> where F::State: Clone + Eq + Debug {
    pub fn new(inner: F, dedup: bool) -> Self { CheckedFringe { inner, dedup, reference: vec![], alt_paths: vec![], stats: Default::default(), errors: vec![], pop_bound: 0, popped: vec![], repushed: vec![], key_of: None } }
    fn err(&mut self, e: String) { if self.errors.len() < 5 { self.errors.push(e); } }
    fn check_len(&mut self, op: &str) {
        if self.inner.len() != self.reference.len() {
            let e = format!("after {op}: len() = {} but the reference holds {} poppable items", self.inner.len(), self.reference.len());
            self.err(e);
        }
        if self.inner.is_empty() != self.reference.is_empty() { let e = format!("after {op}: is_empty() inconsistent with reference"); self.err(e); }
        sched::set_fringe_len(self.reference.len());
    }
}
fn same_sub<S: Eq>(a: &SubProblem<S>, b: &SubProblem<S>) -> bool { a.depth == b.depth && a.state == b.state }
impl<F: Fringe> Fringe for CheckedFringe<F> where F::State: Clone + Eq + Debug {
    type State = F::State;
    fn push(&mut self, node: SubProblem<F::State>) {
        self.stats.pushes += 1;
        if sched::trace_on() { eprintln!("[fringe] {:?} push state={:?} depth={} value={} ub={}", sched::current_tid(), node.state, node.depth, node.value, node.ub); }
        if self.popped.len() <= 4096 && self.popped.iter().any(|(s, d, p)| *d == node.depth && *s == *node.state && *p == node.path) { self.stats.repush_of_popped += 1; REPUSH_OF_POPPED.fetch_add(1, Ordering::SeqCst); if self.repushed.len() < 4 { self.repushed.push((node.state.as_ref().clone(), node.depth)); if let Some(k) = self.key_of { REPUSHED_KEYS.lock().unwrap().push((k(node.state.as_ref()), node.depth)); } } }
        if let Some(k) = self.key_of { let mut l = PUSH_LOG.lock().unwrap(); if l.len() < 100_000 { l.push((k(node.state.as_ref()), node.depth, node.value)); } }
        let existing = if self.dedup { self.reference.iter().position(|x| same_sub(x, &node)) } else { None };
        match existing {
            Some(i) => {
                self.stats.coalesced += 1;
                let old = &mut self.reference[i];
                if old.ub != node.ub { self.stats.coalesced_diff_ub += 1; }
                let ub = old.ub.max(node.ub);
                if node.value > old.value { *old = node.clone(); self.alt_paths[i].clear(); }
                else if node.value == old.value && node.path != old.path { self.alt_paths[i].push(node.path.clone()); }
                old.ub = ub;
            }
            None => { self.reference.push(node.clone()); self.alt_paths.push(vec![]); }
        }
        self.inner.push(node);
        self.stats.max_len = self.stats.max_len.max(self.reference.len());
        self.check_len("push");
    }
    fn pop(&mut self) -> Option<SubProblem<F::State>> {
        self.stats.pops += 1;
        if self.pop_bound > 0 && self.stats.pops > self.pop_bound { panic!("SIM-STEP-BOUND: more than {} fringe pops", self.pop_bound); }
        let got = self.inner.pop();
        if sched::trace_on() { eprintln!("[fringe] {:?} pop -> {:?}", sched::current_tid(), got.as_ref().map(|n| (n.state.as_ref().clone(), n.depth, n.value, n.ub))); }
        match &got {
            None => { if !self.reference.is_empty() { let e = format!("pop() returned None but the reference holds {} items", self.reference.len()); self.err(e); } }
            Some(n) => {
                if self.popped.len() < 4096 { self.popped.push((n.state.as_ref().clone(), n.depth, n.path.clone())); }
                let best = self.reference.iter().map(|x| (x.ub, x.value)).max();
                // the popped item must exist in the reference. For a dedup fringe, value/path/ub are dictated by the coalescing rule.
                let alts = &self.alt_paths;
                let pos = self.reference.iter().enumerate().position(|(i, x)| same_sub(x, n) && x.value == n.value && x.ub == n.ub && (x.path == n.path || alts[i].contains(&n.path)));
                match pos {
                    Some(i) => {
                        if Some((n.ub, n.value)) != best { let e = format!("pop() returned (ub={}, value={}) but the reference maximum is {:?}", n.ub, n.value, best); self.err(e); }
                        self.reference.swap_remove(i); self.alt_paths.swap_remove(i);
                    }
                    None => {
                        let close: Vec<String> = self.reference.iter().filter(|x| x.state == n.state).map(|x| format!("(depth={}, value={}, ub={}, path={:?})", x.depth, x.value, x.ub, x.path)).collect();
                        let e = format!("pop() returned a sub-problem that the reference does not hold: state={:?} depth={} value={} ub={} path={:?}; reference entries with that state: {:?}", n.state, n.depth, n.value, n.ub, n.path, close);
                        self.err(e);
                        // resynchronise as well as possible so that one defect is reported once
                        if let Some(i) = self.reference.iter().position(|x| x.state == n.state) { self.reference.swap_remove(i); self.alt_paths.swap_remove(i); }
                    }
                }
            }
        }
        self.check_len("pop");
        got
    }
    fn clear(&mut self) { if sched::trace_on() { eprintln!("[fringe] {:?} clear", sched::current_tid()); } self.stats.clears += 1; self.reference.clear(); self.alt_paths.clear(); self.inner.clear(); self.check_len("clear"); }
    fn len(&self) -> usize { self.inner.len() }
}

pub struct DebugAny<'a, T>(pub &'a T);
impl<'a, T> std::fmt::Debug for DebugAny<'a, T> { fn fmt(&self, f: &mut std::fmt::Formatter<'_>) -> std::fmt::Result {
    // best effort: print raw bytes of small states (only used for tracing)
    let p = self.0 as *const T as *const u8; let n = std::mem::size_of::<T>().min(16);
    let b: Vec<u8> = (0..n).map(|i| unsafe { *p.add(i) }).collect(); write!(f, "{:?}", b) } }
