//! lcs example (multiple longest common subsequence): file = header line `<n_strings> <alphabet_size>`, then exactly
//! n_strings lines `<length> <string>`; objective = length of a longest string that is a subsequence of every input
//! string (printed as is: `best_value.unwrap_or(-1)`, no sign flip / offset; the problem is never infeasible since
//! the empty string is always a common subsequence).
//!
//! DISCREPANCY SEEN ON THE UNCHANGED REPOSITORY (not hidden by the generator): at --width 1 (often), 2 and 3 (rarely) the
//! program prints a value BELOW the optimum with `Aborted: false` on ~4% of the generated instances. Every one of them
//! (254 / 6000 runs) reproduces with the plain example, 1 thread, and in every one a relaxed `Pooled` compilation hands
//! its own root back in the cut-set (known finding D5: pooled diagram + long arcs + caching parallel solver); the same
//! instances give the oracle's value at --width 1000. Exhibit:
//! `3 4 / cccgtaagcctct / acgacatggtga / gcatcgtagctt` prints 5 (aactt) at --width 1, optimum 6 (cgactt).
use super::{ExInstance, ExampleSpec};
use crate::rng::Rng;

pub fn spec() -> ExampleSpec {
    ExampleSpec { name: "lcs", generate, cli, sched_threads: |t| t,
        premises: "exactly n_strings string lines follow the header (the reader keeps every line, sorts by length and silently uses only the n_strings shortest ones) and no blank/trailing garbage line (a line without two tokens is a format error -> unwrap panic); every string is non-empty (an empty string cannot be written as a second token); n_strings >= 1; the alphabet size of the header is >= the number of distinct characters really used (the reader numbers the used characters 0.. in sorted order and the model only iterates over 0..alphabet_size, so a too small header value would silently drop characters); the leading <length> token is not interpreted by the reader, we always write the true length" }
}
fn cli(path: &str, width: Option<usize>, threads: usize) -> Vec<String> {
    // clap Args: positional fname, --threads, --width, (--duration: not passed)
    let mut v = vec![path.to_string(), "--threads".into(), threads.to_string()];
    if let Some(w) = width { v.push("--width".into()); v.push(w.to_string()); }
    v
}

fn is_subseq(needle: &[u8], hay: &[u8]) -> bool {
    let mut k = 0;
    for &c in hay { if k < needle.len() && needle[k] == c { k += 1; } }
    k == needle.len()
}

fn generate(rng: &mut Rng) -> ExInstance {
    // two families: `hard` = several long strings over a small alphabet (many distinct position vectors share the same
    // position in the shortest string, so that layers exceed widths 1-3 and the solver has to branch); otherwise small /
    // degenerate shapes (one string, one letter, length 1, ...)
    let hard = rng.chance(3, 5);
    let m = if hard { 3 + rng.below(4) } else { *rng.pick(&[1usize, 2, 2, 3, 3, 3, 4, 4, 5, 6]) };
    let k = if hard { 2 + rng.below(3) } else { *rng.pick(&[1usize, 2, 2, 3, 3, 4, 4, 4, 5, 6]) }; // alphabet size announced in the header
    let first = *rng.pick(&[b'a', b'a', b'A', b'f', b'0']); // the reader accepts any character
    let alpha: Vec<u8> = if k == 4 && rng.chance(1, 2) { b"acgt".to_vec() } else { (0..k as u8).map(|i| first + i).collect() };
    let base = if hard { 12 + rng.below(5) } else { 1 + rng.below(12) }; // length (<= 16) of the shortest string: brute force enumerates its 2^base subsequences
    let extra = if hard { 13 } else { 7 };
    let related = rng.chance(1, 2);
    let seed_str: Vec<u8> = (0..base + extra).map(|_| *rng.pick(&alpha)).collect();
    let mut strings: Vec<Vec<u8>> = vec![];
    for i in 0..m {
        let len = if i == 0 { base } else { base + rng.below(extra) };
        let s: Vec<u8> = if related {
            // noisy copy of a common seed string: long common subsequences, many ties
            let mut s: Vec<u8> = vec![];
            let mut p = 0;
            while s.len() < len {
                if p < seed_str.len() && !rng.chance(1, 4) { s.push(seed_str[p]); p += 1; } else if rng.chance(1, 2) { s.push(*rng.pick(&alpha)); } else { p += 1; if p >= seed_str.len() { p = 0; } }
            }
            s
        } else { (0..len).map(|_| *rng.pick(&alpha)).collect() };
        strings.push(s);
    }
    if m >= 2 && rng.chance(1, 12) { let c = strings[0].clone(); strings[1] = c; } // duplicated string
    // the file does not have to list the shortest string first (the reader sorts)
    for i in (1..strings.len()).rev() { let j = rng.below(i + 1); strings.swap(i, j); }
    let k = if rng.chance(1, 8) { k + 1 + rng.below(3) } else { k }; // header may announce more characters than are used
    let mut content = format!("{m}{}{k}\n", if rng.chance(1, 2) { "\t" } else { " " });
    let sep = if rng.chance(1, 2) { "\t" } else { " " };
    for s in strings.iter() { content.push_str(&format!("{}{sep}{}\n", s.len(), String::from_utf8_lossy(s))); }
    if rng.chance(1, 4) { content.pop(); } // no final newline

    // oracle: every subsequence of the shortest string (bit mask), kept if it is a subsequence of all the others
    let shortest = strings.iter().min_by_key(|s| s.len()).unwrap().clone();
    let mut best = 0usize;
    for mask in 0u32..(1u32 << shortest.len()) {
        let l = mask.count_ones() as usize;
        if l <= best { continue; }
        let cand: Vec<u8> = (0..shortest.len()).filter(|i| mask >> i & 1 == 1).map(|i| shortest[i]).collect();
        if strings.iter().all(|s| is_subseq(&cand, s)) { best = l; }
    }
    ExInstance { content, file_name: "lcs.txt".into(), expected: Some(best as i64), no_solution_prints: -1,
        describe: format!("lcs header=({m},{k}) strings={:?}", strings.iter().map(|s| String::from_utf8_lossy(s).to_string()).collect::<Vec<_>>()) }
}
