//! srflp example (single-row facility layout): file = line 1 `n`, line 2 the n department lengths, then n lines with the
//! n x n flow matrix; tokens separated by commas and/or blanks, empty lines skipped. If the file PATH contains "Cl"
//! (clearance instances of the benchmark library) the reader adds 10 to every length.
//! Objective = min over all left-to-right arrangements of sum_{i<j} flow[i][j] * (distance between the centres of i and j).
//! The program prints `-best_value + root_value` as an f64 (root_value = sum_{i<j} (l_i+l_j)/2 * flow[i][j]); the value can
//! end in .5 and the harness rounds what it reads (f64::round, half away from zero), so `expected` is rounded the same way.
use super::{ExInstance, ExampleSpec};
use crate::rng::Rng;

pub fn spec() -> ExampleSpec {
    ExampleSpec { name: "srflp", generate, cli, sched_threads: |t| t,
        premises: "n >= 1 departments (n <= 64: Set64); lengths >= 1 (positive by definition; the rough bound divides by the length); flows >= 0 (the relaxation takes minima of cuts and sorts flows assuming more flow = more cost); the flow matrix is symmetric with a zero diagonal as in every benchmark file (the model reads flows[d][i] in both orientations during transitions but only the upper triangle for its constant term); exactly n numeric tokens (or more) on each of the n+1 data lines; no whitespace-only line (only really empty lines are skipped); the 'Cl' clearance rule looks at the whole path, so the work directory itself must not contain \"Cl\" (true for /verif/work and /tmp/exwork_*/work); the optimum may be a half-integer: compared after rounding half away from zero" }
}
fn cli(path: &str, width: Option<usize>, threads: usize) -> Vec<String> {
    // clap Args: positional fname, --threads, --width (multiplier of nb_vars; default: NbUnassignedWidth), (--duration: not passed)
    let mut v = vec![path.to_string(), "--threads".into(), threads.to_string()];
    if let Some(w) = width { v.push("--width".into()); v.push(w.to_string()); }
    v
}

/// all arrangements, left to right. `x2` = twice the abscissa of the left end of the free space; `centre2[p]` = twice the
/// abscissa of the centre of the already placed department p. `twice` = twice the cost of the pairs placed so far.
fn dfs(len: &[i64], flow: &[Vec<i64>], placed: u32, x2: i64, centre2: &mut Vec<i64>, twice: i64, best: &mut i64) {
    let n = len.len();
    if placed == (1u32 << n) - 1 { if twice < *best { *best = twice; } return; }
    for d in 0..n {
        if placed >> d & 1 == 1 { continue; }
        let cd = x2 + len[d];
        let mut add = 0;
        for p in 0..n { if placed >> p & 1 == 1 { add += flow[p.min(d)][p.max(d)] * (cd - centre2[p]); } }
        centre2[d] = cd;
        dfs(len, flow, placed | 1 << d, x2 + 2 * len[d], centre2, twice + add, best);
    }
}

fn generate(rng: &mut Rng) -> ExInstance {
    let n = *rng.pick(&[1usize, 2, 3, 4, 5, 5, 6, 6, 7, 7, 8, 8, 9]);
    let maxl = *rng.pick(&[1usize, 3, 9, 9, 30, 60]);
    let maxf = *rng.pick(&[1usize, 3, 9, 9, 50]);
    let zero = *rng.pick(&[0u64, 1, 3, 6]);
    let file_len: Vec<i64> = (0..n).map(|_| 1 + rng.below(maxl) as i64).collect();
    let mut flow = vec![vec![0i64; n]; n];
    for i in 0..n { for j in i + 1..n { let f = if rng.chance(zero, 10) { 0 } else { rng.below(maxf + 1) as i64 }; flow[i][j] = f; flow[j][i] = f; } }
    let clearance = rng.chance(1, 4);
    let file_name = if clearance { format!("Cl{n}") } else { (*rng.pick(&["S", "P", "srflp_"])).to_string() + &n.to_string() };
    let sep = *rng.pick(&[",", ",", " ", ", ", "\t"]);
    let mut content = format!("{n}\n");
    if rng.chance(1, 4) { content.push('\n'); }
    content.push_str(&file_len.iter().map(|x| x.to_string()).collect::<Vec<_>>().join(sep)); content.push('\n');
    if rng.chance(1, 4) { content.push('\n'); }
    for i in 0..n { content.push_str(&flow[i].iter().map(|x| x.to_string()).collect::<Vec<_>>().join(sep)); content.push('\n'); }
    if rng.chance(1, 4) { content.push('\n'); }

    // the reader's clearance rule: +10 on every length when the path contains "Cl"
    let len: Vec<i64> = file_len.iter().map(|l| if clearance { l + 10 } else { *l }).collect();
    let mut best = i64::MAX;
    dfs(&len, &flow, 0, 0, &mut vec![0; n], 0, &mut best);
    // printed value = best/2 as f64; the harness parses it with f64::round (half away from zero; the cost is >= 0)
    let expected = (best + 1).div_euclid(2);
    ExInstance { content, file_name, expected: Some(expected), no_solution_prints: -1,
        describe: format!("srflp n={n} lengths(after clearance)={:?} flows={:?} exact optimum={}{}", len, flow, best / 2, if best % 2 == 1 { ".5" } else { "" }) }
}
