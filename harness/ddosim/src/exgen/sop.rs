//! sop example (sequential ordering problem, TSPLIB format): header lines up to `EDGE_WEIGHT_SECTION`, then one line with
//! the dimension n, then n lines of the full n x n matrix C (whitespace separated), optional `EOF`.
//! C[i][j] >= 0 is the cost of the arc i -> j; C[i][j] == -1 means "j must precede i". A solution is a Hamiltonian path
//! that starts at node 0, ends at node n-1 and respects all precedences; objective = minimal sum of arc costs.
//! The program prints `best_value.map(|x| -x).unwrap_or(-1)`: the (positive) path cost, or -1 without solution.
//!
//! DISCREPANCIES SEEN ON THE UNCHANGED REPOSITORY (not hidden by the generator):
//!  (1) infeasible instances (precedence cycle, ~7% of the runs): main.rs evaluates `- solver.best_lower_bound()` with
//!      best_lower_bound() == isize::MIN: `attempt to negate with overflow` panic in every build with overflow checks
//!      (cargo's dev profile, this harness); the shipped release profile wraps silently and prints `Objective: -1`.
//!  (2) ~0.15% of the feasible runs (n >= 7, any width incl. the default, any thread count, deterministic with 1 thread):
//!      the program prints a cost ABOVE the optimum with `Aborted: false`. Cause: `Sop::can_schedule` on a merged state
//!      requires every predecessor to be scheduled in ALL merged states (complement of must_schedule U maybe_schedule)
//!      instead of in SOME of them (complement of must_schedule): the merged node loses transitions that exist from the
//!      states it stands for, so the "relaxed" diagram is no relaxation and its bounds prune the optimum.
//!      Exhibit (default width, 1 thread: prints 14 = 0 3 5 1 2 4 6; optimum 13 = 0 3 5 2 4 1 6, found at --width 2):
//!        EDGE_WEIGHT_SECTION / 7 / 0 3 4 0 10 5 1000000 / -1 0 0 10 2 8 0 / -1 9 0 5 0 2 3 / -1 8 10 0 2 4 8 /
//!        -1 0 -1 5 0 -1 2 / -1 8 9 10 5 0 8 / -1 -1 -1 -1 -1 -1 0 / EOF
use super::{ExInstance, ExampleSpec};
use crate::rng::Rng;

pub fn spec() -> ExampleSpec {
    ExampleSpec { name: "sop", generate, cli, sched_threads: |t| t,
        premises: "TSPLIB SOP conventions: n >= 2 nodes (start node 0 and end node n-1 are distinct; the model has n-1 variables and computes nb_variables()-1); the last row is all -1 except the diagonal, i.e. every node precedes node n-1 (the model forces the decision n-1 on the last variable without any check and relies on the precedences to keep n-1 from being scheduled earlier); row 0 and column n-1 contain no -1 (nothing has to precede the start node / follow the end node: the model would charge isize::MAX for such an arc instead of rejecting it); costs are >= 0 and -1 is the only negative entry (the reader treats exactly -1 as a precedence mark); diagonal 0; n <= 256 (Set256). Column 0 is -1 (0 precedes everybody) in 3/4 of the instances and arbitrary otherwise (never read for a decision). Precedences between inner nodes are either acyclic (drawn from a hidden order; transitively closed in half of the instances, as in TSPLIB) or, in ~8% of the instances, contain a cycle, which makes the instance infeasible (expected print: -1). The matrix must come after a line containing EDGE_WEIGHT_SECTION." }
}
fn cli(path: &str, width: Option<usize>, threads: usize) -> Vec<String> {
    // clap Args: positional fname, --threads, --width (a multiplier of SopWidth, default 1), (--duration: not passed)
    let mut v = vec![path.to_string(), "--threads".into(), threads.to_string()];
    if let Some(w) = width { v.push("--width".into()); v.push(w.to_string()); }
    v
}

/// exhaustive enumeration of all orders of the inner nodes; `before[v]` = bit set of nodes that must come before v
fn dfs(c: &[Vec<i64>], n: usize, last: usize, placed: u32, cost: i64, best: &mut Option<i64>) {
    let all_inner: u32 = ((1u32 << n) - 1) & !1 & !(1 << (n - 1));
    if placed & all_inner == all_inner {
        // close the path on the end node
        let total = cost + c[last][n - 1];
        if best.map_or(true, |b| total < b) { *best = Some(total); }
        return;
    }
    // costs are >= 0: a prefix that already costs as much as the best complete path cannot lead to a cheaper one
    if best.map_or(false, |b| cost >= b) { return; }
    for v in 1..n - 1 {
        if placed >> v & 1 == 1 { continue; }
        // v comes now, every still unplaced w (inner nodes and the end node) comes later: none of them may be required before v
        let ok = (1..n).all(|w| w == v || placed >> w & 1 == 1 || c[v][w] != -1);
        if !ok { continue; }
        dfs(c, n, v, placed | 1 << v, cost + c[last][v], best);
    }
}

fn generate(rng: &mut Rng) -> ExInstance {
    let n = *rng.pick(&[2usize, 3, 4, 5, 6, 7, 8, 9, 10, 10, 11, 11, 11, 12, 12]);
    let maxd = *rng.pick(&[3i64, 10, 10, 30, 100, 1000]);
    let mut c = vec![vec![0i64; n]; n];
    for i in 0..n { for j in 0..n { if i != j { c[i][j] = if rng.chance(1, 10) { 0 } else { rng.below(maxd as usize + 1) as i64 }; } } }
    if rng.chance(1, 6) { // symmetric costs
        for i in 0..n { for j in 0..i { c[i][j] = c[j][i]; } }
    }
    // TSPLIB conventions for the start and end nodes
    let col0 = !rng.chance(1, 4);
    for i in 1..n { if col0 { c[i][0] = -1; } }
    for j in 0..n - 1 { c[n - 1][j] = -1; }
    if rng.chance(1, 2) { c[0][n - 1] = 1_000_000; }
    // precedences between inner nodes, consistent with a hidden order
    let inner: Vec<usize> = { let mut v: Vec<usize> = (1..n - 1).collect(); for i in (1..v.len()).rev() { let j = rng.below(i + 1); v.swap(i, j); } v };
    let dens = *rng.pick(&[0u64, 0, 1, 1, 2, 3, 5]);
    let mut prec = vec![vec![false; n]; n]; // prec[a][b]: a before b
    for x in 0..inner.len() { for y in x + 1..inner.len() { if rng.chance(dens, 10) { prec[inner[x]][inner[y]] = true; } } }
    if rng.chance(1, 2) { for k in 0..n { for a in 0..n { for b in 0..n { if prec[a][k] && prec[k][b] { prec[a][b] = true; } } } } }
    let mut cyclic = false;
    if inner.len() >= 2 && rng.chance(1, 12) {
        // a precedence cycle of length 2 or 3: no feasible order
        let len = if inner.len() >= 3 && rng.chance(1, 2) { 3 } else { 2 };
        for x in 0..len { prec[inner[x]][inner[(x + 1) % len]] = true; }
        cyclic = true;
    }
    for a in 0..n { for b in 0..n { if prec[a][b] { c[b][a] = -1; } } }

    let mut content = String::new();
    if rng.chance(3, 4) { content.push_str(&format!("NAME: gen.{n}.sop\nTYPE: SOP\nCOMMENT: generated\nDIMENSION: {n}\nEDGE_WEIGHT_TYPE: EXPLICIT\nEDGE_WEIGHT_FORMAT: FULL_MATRIX \n")); }
    content.push_str("EDGE_WEIGHT_SECTION\n");
    content.push_str(&format!("{n}\n"));
    let wide = rng.chance(1, 2);
    for i in 0..n { let row: Vec<String> = c[i].iter().map(|x| if wide { format!("{x:>8}") } else { x.to_string() }).collect(); content.push_str(&row.join(" ")); content.push('\n'); }
    if rng.chance(3, 4) { content.push_str("EOF\n"); }

    // oracle
    let mut best = None;
    if (1..n).all(|w| c[0][w] != -1) { dfs(&c, n, 0, 1, 0, &mut best); }
    debug_assert!(cyclic == best.is_none());
    let _ = cyclic;
    ExInstance { content, file_name: format!("gen.{n}.sop"), expected: best, no_solution_prints: -1,
        describe: format!("sop n={n} matrix={:?}", c) }
}
