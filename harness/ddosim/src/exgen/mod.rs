//! C16: generators of small random instances IN EACH EXAMPLE'S FILE FORMAT, with an independent brute-force
//! oracle over the combinatorial object (never through the DP model), and the arm that runs the real example
//! binaries (harness/exrun) under the deterministic scheduler and compares what they print.
use std::io::Write;
use std::process::{Command, Stdio};

use serde_json::json;

use crate::agg::{hash_json, Agg, ViolationRecord};
use crate::rng::Rng;
use crate::solve::Violation;

pub mod knapsack;
pub mod misp;
pub mod max2sat;
pub mod mcp;
pub mod golomb;
pub mod lcs;
pub mod sop;
pub mod srflp;
pub mod tsptw;
pub mod talentsched;
pub mod psp;
pub mod alp;

/// One generated instance of an example.
#[derive(Debug, Clone)]
pub struct ExInstance {
    /// file content in the example's input format
    pub content: String,
    /// file name to use (some readers look at the name / extension)
    pub file_name: String,
    /// the objective value the program must print on its `Objective:` line (None: the problem has no feasible
    /// solution; every example prints -1 - or its own transformation of "no value" - in that case, see `no_solution_prints`)
    pub expected: Option<i64>,
    /// what the program prints as objective when there is no solution
    pub no_solution_prints: i64,
    /// human readable description of the instance for samples / reports
    pub describe: String,
}

pub struct ExampleSpec {
    pub name: &'static str,
    pub generate: fn(&mut Rng) -> ExInstance,
    /// command line of the example: (instance path, width, threads) -> argv (without program name)
    pub cli: fn(&str, Option<usize>, usize) -> Vec<String>,
    /// number of worker threads the example starts for a given `threads` choice (0: sequential solver, no scheduler).
    /// Examples without a thread option use `ParallelSolver::new`, i.e. num_cpus::get() workers: return `ncpus()`.
    pub sched_threads: fn(usize) -> usize,
    /// premises on generated instances (documented, listed in the evidence)
    pub premises: &'static str,
}

pub fn ncpus() -> usize { num_cpus::get() }
pub fn specs() -> Vec<ExampleSpec> {
    vec![knapsack::spec(), misp::spec(), max2sat::spec(), mcp::spec(), golomb::spec(), lcs::spec(), sop::spec(), srflp::spec(), tsptw::spec(), talentsched::spec(), psp::spec(), alp::spec()]
}
pub fn spec_of(name: &str) -> Option<ExampleSpec> { specs().into_iter().find(|s| s.name == name) }

fn exe_path(name: &str) -> std::path::PathBuf {
    let me = std::env::current_exe().unwrap();
    me.parent().unwrap().join(format!("ex_{name}"))
}

#[derive(Debug, Clone)]
pub struct ExRunResult { pub stdout: String, pub code: Option<i32>, pub timed_out: bool }

/// runs the real example binary on the given instance file under the deterministic scheduler
pub fn run_example(name: &str, argv: &[String], threads_for_sched: usize, sched_seed: u64, strategy_json: Option<&str>, timeout_s: u64) -> ExRunResult {
    let mut cmd = Command::new(exe_path(name));
    cmd.args(argv).env("VERIF_EX_THREADS", threads_for_sched.to_string()).env("VERIF_EX_SEED", sched_seed.to_string()).stdout(Stdio::piped()).stderr(Stdio::null()).stdin(Stdio::null());
    if let Some(s) = strategy_json { cmd.env("VERIF_EX_STRATEGY", s); }
    let mut child = match cmd.spawn() { Ok(c) => c, Err(e) => return ExRunResult { stdout: format!("SPAWN-ERROR {e}"), code: Some(127), timed_out: false } };
    let t0 = std::time::Instant::now();
    loop {
        match child.try_wait() {
            Ok(Some(_)) => break,
            Ok(None) => { if t0.elapsed().as_secs() > timeout_s { let _ = child.kill(); let _ = child.wait(); return ExRunResult { stdout: String::new(), code: None, timed_out: true }; } std::thread::sleep(std::time::Duration::from_millis(1)); }
            Err(_) => break,
        }
    }
    let out = child.wait_with_output().unwrap();
    ExRunResult { stdout: String::from_utf8_lossy(&out.stdout).to_string(), code: out.status.code(), timed_out: false }
}

pub fn parse_objective(stdout: &str) -> Option<i64> {
    for l in stdout.lines() { if let Some(rest) = l.strip_prefix("Objective:") { return rest.trim().parse::<f64>().ok().map(|x| x.round() as i64); } }
    // tsptw prints no `Objective:` line: its value is on `lower bnd: <x.xx>` (`+inf` when infeasible -> saturates to i64::MAX)
    for l in stdout.lines() { if let Some(rest) = l.strip_prefix("lower bnd:") { return rest.trim().parse::<f64>().ok().map(|x| x.round() as i64); } }
    None
}

fn work_dir() -> String { let d = std::env::var("VERIF_WORK").unwrap_or_else(|_| "/verif/work".into()); let d = format!("{d}/ex_{}", std::process::id()); let _ = std::fs::create_dir_all(&d); d }

/// judge one execution
pub fn judge(name: &str, inst: &ExInstance, res: &ExRunResult, ctx: &str) -> Vec<Violation> {
    let c16 = vec!["C16".to_string()];
    let mut v = vec![];
    if res.timed_out { v.push(Violation { props: c16.clone(), class: "example-hang".into(), msg: format!("example {name} did not finish within the watchdog time; {ctx}") }); return v; }
    if let Some(l) = res.stdout.lines().find(|l| l.starts_with("SIM-FATAL")) { v.push(Violation { props: c16.clone(), class: "example-hang".into(), msg: format!("example {name}: {l}; {ctx}") }); return v; }
    if let Some(l) = res.stdout.lines().find(|l| l.starts_with("SIM-PANIC")) { v.push(Violation { props: c16.clone(), class: "example-crash".into(), msg: format!("example {name} panicked: {l}; {ctx}") }); return v; }
    if res.code != Some(0) { v.push(Violation { props: if res.code == Some(127) { vec![] } else { c16.clone() }, class: if res.code == Some(127) { "harness-example-binary-missing".into() } else { "example-crash".into() }, msg: format!("example {name} exited with {:?}; stdout tail: {}; {ctx}", res.code, res.stdout.chars().rev().take(300).collect::<String>().chars().rev().collect::<String>()) }); return v; }
    match parse_objective(&res.stdout) {
        None => v.push(Violation { props: c16, class: "example-no-objective-line".into(), msg: format!("example {name} printed no parsable `Objective:` line; {ctx}") }),
        Some(got) => {
            let want = inst.expected.unwrap_or(inst.no_solution_prints);
            if got != want { v.push(Violation { props: c16, class: "example-wrong-objective".into(), msg: format!("example {name} printed Objective {got} [{}], independent exhaustive enumeration gives {}; {ctx}", if inst.expected.is_none() { "although there is no solution" } else if got == inst.no_solution_prints { "i.e. no solution" } else if got < want { "printed value below the expected one" } else { "printed value above the expected one" }, match inst.expected { Some(x) => x.to_string(), None => format!("no feasible solution (the program prints {} then)", inst.no_solution_prints) }) }); }
            // (tsptw prints `status   : Proved` / `status   : Timeout` instead of `Aborted: false/true`)
            if res.stdout.lines().any(|l| (l.starts_with("Aborted:") && l.contains("true")) || (l.starts_with("status") && !l.contains("Proved"))) { v.push(Violation { props: vec!["C16".into()], class: "example-aborted".into(), msg: format!("example {name} reports Aborted: true (tsptw: a status other than Proved) although no time limit was given; {ctx}") }); }
        }
    }
    v
}

/// arm `ex-<name>`: one run = one generated instance x one (width, threads, schedule)
pub fn run_example_arm(arm: &str, seed: u64, run: u64, agg: &mut Agg, explicit: Option<&serde_json::Value>) -> Option<Option<ViolationRecord>> {
    let name = arm.strip_prefix("ex-")?;
    let spec = spec_of(name)?;
    let mut rng = Rng::new(seed);
    let (inst, width, threads, sched_seed, strategy): (ExInstance, Option<usize>, usize, u64, Option<String>) = match explicit {
        Some(p) => (ExInstance { content: p["content"].as_str()?.to_string(), file_name: p["file_name"].as_str()?.to_string(), expected: p["expected"].as_i64(), no_solution_prints: p["no_solution_prints"].as_i64().unwrap_or(-1), describe: p["describe"].as_str().unwrap_or("").to_string() },
                    p["width"].as_u64().map(|w| w as usize), p["threads"].as_u64()? as usize, p["sched_seed"].as_u64()?, p["strategy"].as_str().map(|s| s.to_string())),
        None => {
            let mut irng = rng.fork(7);
            let inst = (spec.generate)(&mut irng);
            let width = *rng.pick(&[Some(1), Some(1), Some(2), Some(3), None]); // relaxation-side defects mostly show at the narrowest width
            let threads = *rng.pick(&[1usize, 2, 4]);
            (inst, width, threads, rng.next(), None)
        }
    };
    agg.runs += 1;
    let dir = work_dir();
    let path = format!("{dir}/{}", inst.file_name);
    { let mut f = std::fs::File::create(&path).ok()?; f.write_all(inst.content.as_bytes()).ok()?; }
    let argv = (spec.cli)(&path, width, threads);
    let res = run_example(name, &argv, (spec.sched_threads)(threads), sched_seed, strategy.as_deref(), 60);
    let _ = std::fs::remove_file(&path);
    let ctx = format!("width={:?} threads={} sched_seed={} instance: {}", width, threads, sched_seed, inst.describe);
    let mut viol = judge(name, &inst, &res, &ctx);
    // a wrong objective is re-examined at a very large width (no merge, no restriction ever happens there): a defect of the
    // relaxation side (merge, relaxed costs, rough bound) disappears, a defect of the reader / exact model does not
    if viol.iter().any(|v| v.class == "example-wrong-objective") && width != Some(1000) {
        let argv2 = (spec.cli)(&{ let mut f = std::fs::File::create(&path).ok()?; f.write_all(inst.content.as_bytes()).ok()?; path.clone() }, Some(1000), 1);
        let res2 = run_example(name, &argv2, (spec.sched_threads)(1), sched_seed, None, 60);
        let _ = std::fs::remove_file(&path);
        let wide_ok = !res2.timed_out && res2.code == Some(0) && parse_objective(&res2.stdout) == Some(inst.expected.unwrap_or(inst.no_solution_prints));
        for v in viol.iter_mut() { if v.class == "example-wrong-objective" { v.msg.push_str(if wide_ok { " [relaxation-dependent: the program agrees with the oracle at --width 1000]" } else { " [still wrong at --width 1000]" }); } }
    }
    // coverage
    agg.add(&format!("example_runs:{name}"), 1);
    agg.hit("infeasible_instance", inst.expected.is_none());
    agg.hit(&format!("width:{}", width.map_or("default".to_string(), |w| w.to_string())), true);
    agg.hit(&format!("threads:{threads}"), true);
    let mut trace = 0u64;
    if let Some(l) = res.stdout.lines().find(|l| l.starts_with("SIM-REPORT")) {
        if let Ok(j) = serde_json::from_str::<serde_json::Value>(&l[10..]) {
            agg.add("sched_steps", j["steps"].as_u64().unwrap_or(0));
            agg.add("fault:preemptions", j["preemptions"].as_u64().unwrap_or(0));
            agg.add("cond_waits", j["cond_waits"].as_u64().unwrap_or(0));
            agg.hit("probe:>=2_workers_compiling_at_once", j["max_concurrent_processing"].as_u64().unwrap_or(0) >= 2);
            trace = j["trace_hash"].as_u64().unwrap_or(0);
            if let Some(a) = j["abstract_states"].as_array() { for s in a { if let Some(x) = s.as_u64() { agg.abstract_states.insert(x); } } }
        }
    }
    let explored_hint = res.stdout.len() as u64; let _ = explored_hint;
    agg.distinct_case(crate::rng::mix(hash_json(&(&inst.content, width, threads)), trace));
    agg.sample(|| json!({"arm": arm, "seed": seed, "width": width, "threads": threads, "instance_file": inst.content, "expected_objective": inst.expected, "program_output": res.stdout.lines().filter(|l| !l.starts_with("Duration") && !l.starts_with("SIM-REPORT")).collect::<Vec<_>>()}));
    Some(if viol.is_empty() { None } else {
        Some(ViolationRecord { arm: arm.into(), seed, run, violations: viol, replay: json!({"kind": "example", "arm": arm, "content": inst.content, "file_name": inst.file_name, "expected": inst.expected, "no_solution_prints": inst.no_solution_prints, "describe": inst.describe,
            "width": width, "threads": threads, "sched_seed": sched_seed, "strategy": strategy}) })
    })
}
