//! knapsack example: file = `n capa` then n lines `profit weight`; objective = max total profit within capacity.
use super::{ExInstance, ExampleSpec};
use crate::rng::Rng;

pub fn spec() -> ExampleSpec {
    ExampleSpec { name: "knapsack", generate, cli, sched_threads: |_| 0,
        premises: "profits >= 0 and weights >= 0 (usize in the reader; one instance in four contains weightless items, a quarter of its items on average); capacity >= 0; items separated by single blanks as the reader splits on ' '" }
}
fn cli(path: &str, width: Option<usize>, _threads: usize) -> Vec<String> {
    let mut v = vec![path.to_string()];
    if let Some(w) = width { v.push("--width".into()); v.push(w.to_string()); }
    v
}
fn generate(rng: &mut Rng) -> ExInstance {
    let nmax = if rng.chance(1, 4) { 12 } else { 9 };
    let n = 1 + rng.below(nmax);
    let capa = rng.below(25);
    let weightless = rng.chance(1, 4);
    let items: Vec<(usize, usize)> = (0..n).map(|_| (rng.below(20), if weightless && rng.chance(1, 4) { 0 } else { 1 + rng.below(12) })).collect();
    let mut content = String::new();
    if rng.chance(1, 3) { content.push_str("c generated instance\n"); }
    content.push_str(&format!("{n} {capa}\n"));
    for (p, w) in items.iter() { content.push_str(&format!("{p} {w}\n")); }
    // oracle: all subsets
    let mut best = 0i64;
    for m in 0u32..(1 << n) { let (mut w, mut p) = (0usize, 0i64); for i in 0..n { if m >> i & 1 == 1 { w += items[i].1; p += items[i].0 as i64; } } if w <= capa { best = best.max(p); } }
    ExInstance { content, file_name: "kp.txt".into(), expected: Some(best), no_solution_prints: -1, describe: format!("knapsack capa={capa} items(profit,weight)={:?}", items) }
}
