//! mcp example (maximum cut, signed integer edge weights): file = optional `c ...` comment lines, a line `<n> <m>`, then one line
//! `<u> <v> <w>` per undirected edge (1-based vertices, w may be negative).
//! Objective = max over all bipartitions (S,T) of the vertex set of the total weight of the edges having one end in S and the other
//! in T (the trivial bipartition with T empty is allowed, so the optimum is >= 0). The program prints the solver value as is
//! (`best_value.unwrap_or(-1)`): no sign flip, no offset (the model itself starts from the sum of the negative weights).
use super::{ExInstance, ExampleSpec};
use crate::rng::Rng;

pub fn spec() -> ExampleSpec {
    ExampleSpec { name: "mcp", generate, cli, sched_threads: |_| super::ncpus(),
        premises: "n >= 1; simple undirected graph: no self loop (the reader would put it on the diagonal of the adjacency matrix and \
`sum_of_negative_edges` halves the matrix sum 'because the graph should be symmetrical') and each unordered vertex pair listed at most once (a \
repeated edge overwrites the matrix cell instead of adding); vertices within 1..=n; the `n m` line precedes all edges (it allocates the matrix); \
integer weights (negative and zero allowed: the shipped instances use -1/+1); comment lines are `c <text>` (the reader tests the prefix `c `)" }
}
/// the example takes `--file <path>` and `--width <w>`; it has no thread option (DefaultSolver::new = num_cpus::get() workers)
fn cli(path: &str, width: Option<usize>, _threads: usize) -> Vec<String> {
    let mut v = vec!["--file".to_string(), path.to_string()];
    if let Some(w) = width { v.push("--width".into()); v.push(w.to_string()); }
    v
}
fn generate(rng: &mut Rng) -> ExInstance {
    let n: usize = if rng.chance(1, 7) { 1 + rng.below(3) } else { 4 + rng.below(9) }; // 1..=12
    let density = 1 + rng.below(8);
    // weight flavours: +-1 as in the shipped instances, all positive, all negative, mixed small, mixed larger
    let flavour = rng.below(6);
    let mut edges: Vec<(usize, usize, i64)> = vec![];
    for a in 0..n { for b in (a + 1)..n {
        if rng.below(8) >= density { continue; }
        let w: i64 = match flavour {
            0 => if rng.chance(1, 2) { 1 } else { -1 },
            1 => 1 + rng.below(9) as i64,
            2 => -(1 + rng.below(9) as i64),
            3 => rng.range(-3, 3) as i64,
            _ => rng.range(-20, 20) as i64,
        };
        let w = if rng.chance(1, 30) { 0 } else { w };
        if rng.chance(1, 2) { edges.push((a, b, w)); } else { edges.push((b, a, w)); }
    } }
    // the file lists the edges in arbitrary order
    for i in (1..edges.len()).rev() { let j = rng.below(i + 1); edges.swap(i, j); }
    let mut content = String::new();
    if rng.chance(1, 2) { content.push_str(&format!("c generated graph with {n} vertices\nc\u{20}\n")); }
    content.push_str(&format!("{n} {}\n", edges.len()));
    for (a, b, w) in edges.iter() { content.push_str(&format!("{} {} {w}\n", a + 1, b + 1)); }
    // oracle: all bipartitions (vertex 0 fixed on side S, which loses nothing by symmetry), weight of the crossing edges
    let mut best = i64::MIN;
    for m in 0u32..(1u32 << (n - 1)) {
        let side = |v: usize| if v == 0 { 0 } else { m >> (v - 1) & 1 };
        let cut: i64 = edges.iter().filter(|(a, b, _)| side(*a) != side(*b)).map(|e| e.2).sum();
        best = best.max(cut);
    }
    ExInstance { content, file_name: "g.mcp".into(), expected: Some(best), no_solution_prints: -1,
        describe: format!("mcp n={n} edges(u,v,w; 0-based)={:?}", edges) }
}
