//! golomb example (optimal Golomb ruler): the program reads NO instance file; its whole input is the positional argument `size`
//! (number of marks). The "instance file" of the harness therefore just holds that number (and `cli` turns it into the positional
//! argument; the file name carries it too, as a fallback).
//! Objective: the length (position of the last mark, first mark at 0) of a shortest ruler with `size` marks whose pairwise
//! differences are all distinct. The model maximises MINUS the length and main prints the solver value as is
//! (`best_value.unwrap_or(-1)`), so the `Objective:` line shows -(optimal length): expected = -length (same one-line formula here).
//! The solver is the sequential `SeqCachingSolverFc`; without --width the program uses FixedWidth(10); its --timeout is ignored by main.
use std::sync::OnceLock;

use super::{ExInstance, ExampleSpec};
use crate::rng::Rng;

pub fn spec() -> ExampleSpec {
    ExampleSpec { name: "golomb", generate, cli, sched_threads: |_| 0,
        premises: "size >= 1 (the model has size-1 variables, `self.n-1` on a usize: size 0 is not a ruler); size <= 8 only to keep one run \
around a second (the program needs ~0.2 s for 7 marks, ~1.4 s for 8, ~12 s for 9; its bitsets would allow up to 15 marks, its table of known optima 28); \
a ruler always exists, so there is no infeasible instance" }
}
/// `ex_golomb <size> [--width w]`; no thread option (sequential solver)
fn cli(path: &str, width: Option<usize>, _threads: usize) -> Vec<String> {
    let from_file = std::fs::read_to_string(path).ok().and_then(|s| s.trim().parse::<usize>().ok());
    let from_name = || { let digits: String = path.rsplit('/').next().unwrap_or("").chars().filter(|c| c.is_ascii_digit()).collect(); digits.parse::<usize>().ok() };
    let size = from_file.or_else(from_name).expect("golomb: size neither in the file nor in its name");
    let mut v = vec![size.to_string()];
    if let Some(w) = width { v.push("--width".into()); v.push(w.to_string()); }
    v
}
const MAX_MARKS: usize = 8;
/// oracle: length of a shortest Golomb ruler with `n` marks, by exhaustive search written from the definition: try the lengths
/// L = n-1, n, ... in turn; for each, enumerate every increasing sequence 0 = m1 < m2 < ... < mn = L, abandoning a prefix as soon
/// as two pairs of marks are the same distance apart. (No table of known optima, no symmetry breaking, no bound other than
/// "the marks still to place need one unit each".)
fn shortest_ruler(n: usize) -> i64 {
    if n <= 1 { return 0; }
    fn place(marks: &mut Vec<usize>, used: &mut Vec<bool>, n: usize, len: usize) -> bool {
        let k = marks.len();
        if k == n { return true; }
        let last = *marks.last().unwrap();
        let (lo, hi) = if k + 1 == n { (len, len) } else { (last + 1, len - (n - k - 1)) };
        if lo <= last { return false; }
        for p in lo..=hi {
            let mut added = vec![];
            let mut ok = true;
            for &m in marks.iter() { let d = p - m; if used[d] { ok = false; break; } used[d] = true; added.push(d); }
            if ok { marks.push(p); let found = place(marks, used, n, len); marks.pop(); if found { for d in added { used[d] = false; } return true; } }
            for d in added { used[d] = false; }
        }
        false
    }
    let mut len = n - 1;
    loop {
        let mut marks = vec![0usize];
        let mut used = vec![false; len + 1];
        if place(&mut marks, &mut used, n, len) { return len as i64; }
        len += 1;
    }
}
fn optimum(n: usize) -> i64 {
    static CACHE: OnceLock<Vec<i64>> = OnceLock::new();
    CACHE.get_or_init(|| (0..=MAX_MARKS).map(shortest_ruler).collect())[n]
}
fn generate(rng: &mut Rng) -> ExInstance {
    // the only parameter is the number of marks; larger sizes are drawn less often because one run takes 0.2 s (7) to 1.4 s (8)
    let n: usize = match rng.below(100) { 0..=5 => 1, 6..=13 => 2, 14..=25 => 3, 26..=43 => 4, 44..=65 => 5, 66..=89 => 6, 90..=97 => 7, _ => 8 };
    let length = optimum(n);
    // the program prints the value of its maximisation model, i.e. minus the ruler length
    let expected = -length;
    ExInstance { content: format!("{n}\n"), file_name: format!("golomb_{n}.txt"), expected: Some(expected), no_solution_prints: -1,
        describe: format!("golomb marks={n} (shortest ruler has length {length})") }
}
#[cfg(test)]
mod tests {
    /// published optimal lengths (OEIS A003022) - only a cross-check of the search above, the arm never uses this table
    #[test] fn oracle_agrees_with_the_literature() { for (n, l) in [(1, 0), (2, 1), (3, 3), (4, 6), (5, 11), (6, 17), (7, 25), (8, 34)] { assert_eq!(super::shortest_ruler(n), l); } }
}
