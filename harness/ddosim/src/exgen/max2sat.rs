//! max2sat example: weighted MAX-2-SAT in (old style) DIMACS wcnf: `p wcnf <vars> <clauses>`, then one clause per line
//! `<weight> <lit> <lit> 0` (binary) or `<weight> <lit> 0` (unit; the shipped instances also write units as `<w> <l> <l> 0`),
//! literals are +-(1-based variable), `c ...` lines are comments.
//! Objective = max over all truth assignments of the total weight of the satisfied clauses (a tautology `x -x` is always
//! satisfied). The program prints the solver value as is (`best_value.unwrap_or(-1)`): no sign flip, no offset.
use super::{ExInstance, ExampleSpec};
use crate::rng::Rng;

pub fn spec() -> ExampleSpec {
    ExampleSpec { name: "max2sat", generate, cli, sched_threads: |_| super::ncpus(),
        premises: "nb_vars >= 1 and every literal within 1..=nb_vars (the reader sizes its weight matrix from the `p wcnf` line, which therefore comes first); \
each clause, as an UNORDERED pair of literals, occurs at most once (the reader stores clauses in a map keyed by the sorted literal pair: a repeated clause \
overwrites the earlier weight instead of adding to it; `w x 0`, `w x x 0` are the same key); weights are small integers, >= 0 in 5 instances out of 6 (0 kept as a legal degenerate weight), of both signs in the 6th (the shipped test suite \
contains negative_wt.wcnf, so negative weights are accepted input); lines are `w l1 l2 0` / `w l 0` \
separated by blanks, every clause has 1 or 2 literals" }
}
/// the example takes `--file <path>` and `--width <w>`; it has no thread option (DefaultSolver::new = num_cpus::get() workers)
fn cli(path: &str, width: Option<usize>, _threads: usize) -> Vec<String> {
    let mut v = vec!["--file".to_string(), path.to_string()];
    if let Some(w) = width { v.push("--width".into()); v.push(w.to_string()); }
    v
}
fn generate(rng: &mut Rng) -> ExInstance {
    let n: usize = if rng.chance(1, 7) { 1 + rng.below(3) } else { 4 + rng.below(9) }; // 1..=12
    // clause shapes: mostly binary on two different variables, some units, some tautologies
    let target = match rng.below(12) { 0 => rng.below(3), 1 => 1 + rng.below(n + 1), _ => n + rng.below(4 * n + 1) };
    let wmax = *rng.pick(&[1i64, 3, 9, 9, 40]);
    // 1 instance in 6 has weights of both signs (the shipped test instance negative_wt.wcnf has a negative weight, so they are legal input)
    let signed = rng.chance(1, 6);
    let mut clauses: Vec<(i64, i64, i64)> = vec![]; // (weight, lit, lit) ; lit == lit: unit
    let mut seen = std::collections::HashSet::new();
    let lit = |rng: &mut Rng| { let v = 1 + rng.below(n) as i64; if rng.chance(1, 2) { v } else { -v } };
    for _ in 0..target {
        let a = lit(rng);
        let b = match rng.below(12) { 0 => a, 1 => -a, _ => lit(rng) };
        let key = (a.min(b), a.max(b));
        if !seen.insert(key) { continue; } // premise: no repeated clause
        let w = if rng.chance(1, 15) { 0 } else { 1 + rng.below(wmax as usize) as i64 };
        let w = if signed && rng.chance(1, 3) { -w } else { w };
        clauses.push((w, a, b));
    }
    let mut content = String::new();
    if rng.chance(1, 3) { content.push_str("c generated instance\n"); }
    content.push_str(&format!("p wcnf {n} {}\n", clauses.len()));
    let short_units = rng.chance(1, 2);
    for (i, (w, a, b)) in clauses.iter().enumerate() {
        if i > 0 && rng.chance(1, 20) { content.push_str("c a comment in the middle\n"); }
        if a == b && short_units { content.push_str(&format!("{w} {a} 0\n")); } else { content.push_str(&format!("{w} {a} {b} 0\n")); }
    }
    // oracle: all 2^n assignments, weight of the clauses having at least one true literal
    let holds = |m: u32, l: i64| { let bit = m >> (l.unsigned_abs() - 1) & 1 == 1; if l > 0 { bit } else { !bit } };
    let mut best = i64::MIN;
    for m in 0u32..(1u32 << n) {
        let s: i64 = clauses.iter().filter(|(_, a, b)| holds(m, *a) || holds(m, *b)).map(|c| c.0).sum();
        best = best.max(s);
    }
    ExInstance { content, file_name: "inst.wcnf".into(), expected: Some(best), no_solution_prints: -1,
        describe: format!("max2sat vars={n}{} clauses(weight,lit,lit)={:?}", if signed { " signed-weights" } else { "" }, clauses) }
}
