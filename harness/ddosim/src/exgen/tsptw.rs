//! tsptw example (travelling salesman with time windows): the salesman leaves the depot (node 0) at time 0, visits
//! every other node exactly once and comes back to the depot. Going from i to j takes `dist[i][j]`; he must ARRIVE
//! at j no later than `latest[j]`; arriving before `earliest[j]` he waits until `earliest[j]`. The return to the
//! depot must happen no later than `latest[0]`. Minimised: the time at which he is back at the depot (travel +
//! waiting = makespan; model.rs: transition_cost = -(travel_time + waiting_time)).
//!
//! File format (instance.rs): lines starting with `#` and blank lines are skipped; first line: number of nodes n
//! (depot included; only the first token is read); n lines = full n x n distance matrix, row i = distances FROM i;
//! n lines `earliest latest`. All numbers are parsed as f32 and multiplied by 10000 (fixed point).
//! CLI: `<instance> --threads <t> [--width <w>]` (w is a multiplier of the layer width nb_vars*(depth+1)).
//! t workers of a ParallelSolver (num_cpus::get() if omitted, hence always passed).
//! Printed: tsptw has NO `Objective:` line; it prints `lower bnd: {:.2}` of `-(best_lower_bound as f32 / 10000.0)`
//! i.e. the makespan in file units with two decimals, and `lower bnd: +inf` when there is no feasible tour
//! (best_lower_bound == isize::MIN). The harness reads that line (fallback in parse_objective), parses it as f64 and
//! rounds to i64: `+inf` becomes i64::MAX (saturating cast) - that is `no_solution_prints`.
use super::{ExInstance, ExampleSpec};
use crate::rng::Rng;

pub fn spec() -> ExampleSpec {
    ExampleSpec { name: "tsptw", generate, cli, sched_threads: |t| t,
        premises: "1 <= n <= 10 nodes (brute force over the (n-1)! tours; the model needs n <= 256: Set256); \
distances satisfy the triangle inequality (Floyd-Warshall closure of the drawn matrix; may be asymmetric, may contain zeros): the model declares a state dead as soon as ONE unvisited node cannot be reached DIRECTLY before its deadline, which is only sound when a detour is never shorter than the direct leg; \
dist[0][0] = 0 (read by the rough bound at the end of the tour and by the 1-node instance); other diagonal entries are never relevant and sometimes non-zero as in the shipped SolomonPesant files; \
earliest <= latest for every node; the depot's window starts at 0 (the model starts the clock at 0 whatever the depot's window says); \
all numbers are integers (written `12`, `12.0` or `12.00`) or, in 1 instance out of 6, multiples of 0.5, so that the f32 fixed-point conversion of the reader and the 2-decimal print are exact; all values are <= 5000, far below 26843 up to which value*10000 (a multiple of 16) is exact in the f32 the program reads into and prints from" }
}
fn cli(path: &str, width: Option<usize>, threads: usize) -> Vec<String> {
    let mut v = vec![path.to_string(), "--threads".into(), threads.to_string()];
    if let Some(w) = width { v.push("--width".into()); v.push(w.to_string()); }
    v
}

/// exhaustive enumeration of the tours (depth first over the orders of the customers). Returns the minimal time of
/// return to the depot, None if no order respects all deadlines. Units: whatever `d`, `e`, `l` are in.
fn brute(n: usize, d: &[Vec<i64>], e: &[i64], l: &[i64]) -> Option<i64> {
    fn rec(n: usize, d: &[Vec<i64>], e: &[i64], l: &[i64], at: usize, now: i64, visited: u32, best: &mut Option<i64>) {
        if visited.count_ones() as usize == n {
            // all customers done (bit 0 = depot is set from the start): go home
            let back = now + d[at][0];
            if back <= l[0] { let back = back.max(e[0]); if best.map_or(true, |b| back < b) { *best = Some(back); } }
            return;
        }
        for j in 1..n {
            if visited >> j & 1 == 1 { continue; }
            let arrive = now + d[at][j];
            if arrive > l[j] { continue; }
            rec(n, d, e, l, j, arrive.max(e[j]), visited | 1 << j, best);
        }
    }
    let mut best = None;
    rec(n, d, e, l, 0, 0, 1, &mut best);
    best
}

fn generate(rng: &mut Rng) -> ExInstance {
    let n = *rng.pick(&[1usize, 2, 3, 4, 5, 6, 7, 7, 8, 8, 8, 9, 9, 9, 10, 10]);
    // numbers in the file = units / scale ; scale 2 -> multiples of 0.5
    let scale: i64 = if rng.chance(1, 6) { 2 } else { 1 };

    // ---- distances: metric closure of a random matrix ----
    let mut d = vec![vec![0i64; n]; n];
    match rng.below(3) {
        0 | 1 => {
            // points on a grid (small grid: co-located points, many ties), distance rounded up
            let g = *rng.pick(&[3usize, 8, 20, 50]);
            let pts: Vec<(i64, i64)> = (0..n).map(|_| (rng.below(g) as i64, rng.below(g) as i64)).collect();
            for i in 0..n { for j in 0..n { let (dx, dy) = (pts[i].0 - pts[j].0, pts[i].1 - pts[j].1); d[i][j] = ((dx * dx + dy * dy) as f64).sqrt().ceil() as i64; } }
        }
        _ => {
            // arbitrary asymmetric matrix
            let r = *rng.pick(&[3usize, 10, 40, 70]);
            for i in 0..n { for j in 0..n { if i != j { d[i][j] = rng.below(r + 1) as i64; } } }
        }
    }
    for k in 0..n { for i in 0..n { for j in 0..n { if d[i][k] + d[k][j] < d[i][j] { d[i][j] = d[i][k] + d[k][j]; } } } }
    for i in 0..n { d[i][i] = 0; }

    // ---- time windows ----
    let huge: i64 = 5000;
    let mut e = vec![0i64; n];
    let mut l = vec![huge; n];
    // a reference tour and its schedule
    let mut tour: Vec<usize> = (1..n).collect();
    for i in (1..tour.len()).rev() { let j = rng.below(i + 1); tour.swap(i, j); }
    let mode = rng.below(8);
    let w = *rng.pick(&[0i64, 5, 20, 60, 150, 150, 400, 400]);
    let mut now = 0i64; let mut at = 0usize;
    for &j in tour.iter() {
        let idle = if rng.chance(1, 3) { rng.below(30) as i64 } else { 0 };
        now += d[at][j] + idle; at = j;
        match mode {
            // windows around the reference schedule (feasible by construction, the reference tour need not be optimal)
            0..=4 => { if rng.chance(1, 6) { e[j] = 0; l[j] = huge.min(1500); } else { e[j] = (now - rng.below(w as usize + 1) as i64).max(0); l[j] = now + rng.below(w as usize + 1) as i64; } }
            // pure TSP: no constraint at all
            5 => { e[j] = 0; l[j] = 1500; }
            // windows unrelated to any tour: frequently infeasible
            _ => { e[j] = rng.below(40 * n) as i64; l[j] = e[j] + rng.below(w as usize + 40) as i64; }
        }
    }
    now += d[at][0];
    // depot: [0, deadline]; sometimes a deadline close to (or below) the reference makespan
    l[0] = match rng.below(6) { 0 => (now + rng.range(-10, 10) as i64).max(0), 1 => now, _ => huge };
    e[0] = 0;

    // ---- file ----
    let num = |x: i64, style: usize| -> String {
        if scale == 2 { format!("{}.{}", x / 2, if x % 2 == 1 { "5" } else { "0" }) }
        else { match style { 0 => format!("{x}"), 1 => format!("{x}.0"), _ => format!("{x}.00") } }
    };
    let style = *rng.pick(&[0usize, 0, 0, 1, 2]);
    // irrelevant diagonal entries of customers (the shipped SolomonPesant matrices carry service times there)
    let diag: i64 = if n > 1 && rng.chance(1, 8) { 1 + rng.below(10) as i64 } else { 0 };
    let mut content = String::new();
    if rng.chance(1, 4) { content.push_str("# generated instance\n"); }
    content.push_str(&format!("{n}\n"));
    // the reader skips `#` comments and blank lines wherever they are: also between the sections and inside the matrix
    if rng.chance(1, 6) { content.push_str(if rng.chance(1, 2) { "# distance matrix\n" } else { "\n" }); }
    for i in 0..n {
        let row: Vec<String> = (0..n).map(|j| num(if i == j && i > 0 { diag } else { d[i][j] }, style)).collect();
        content.push_str(&row.join(" ")); if rng.chance(1, 4) { content.push(' '); } content.push('\n');
        if n > 2 && i + 1 < n && rng.chance(1, 40) { content.push_str("# next row\n"); }
    }
    if rng.chance(1, 6) { content.push_str("# time windows\n"); }
    if rng.chance(1, 4) { content.push('\n'); }
    for i in 0..n { content.push_str(&format!("{}{}{}\n", num(e[i], style), if rng.chance(1, 2) { " " } else { "      " }, num(l[i], style))); }
    if rng.chance(1, 4) { content.push_str("# end\n"); }

    // ---- oracle ----
    let best = brute(n, &d, &e, &l);
    // the program prints units/scale with two decimals and the harness rounds the printed number to the nearest
    // integer, halves away from zero: same one-line formula here
    let expected = best.map(|b| if scale == 2 { (b + 1) / 2 } else { b });
    ExInstance { content, file_name: "inst.tw".into(), expected, no_solution_prints: i64::MAX,
        describe: format!("tsptw n={n} (values below are in units of 1/{scale}) dist={:?} earliest={:?} latest={:?} exact optimum={:?}/{scale}", d, e, l, best) }
}
