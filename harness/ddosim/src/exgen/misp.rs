//! misp example: DIMACS-like `p edge n m`, `n <node> <weight>`, `e <u> <v>` (1-based); objective = max weight independent set.
use super::{ExInstance, ExampleSpec};
use crate::rng::Rng;

pub fn spec() -> ExampleSpec {
    ExampleSpec { name: "misp", generate, cli, sched_threads: |t| t,
        premises: "simple undirected graph, no self loops; node weights >= 0, weight 0 in one instance out of five (the model's rough upper bound and merge assume non-negative weights); the `p edge` line comes first" }
}
fn cli(path: &str, width: Option<usize>, threads: usize) -> Vec<String> {
    let mut v = vec![path.to_string(), "--threads".into(), threads.to_string()];
    if let Some(w) = width { v.push("--width".into()); v.push(w.to_string()); }
    v
}
fn generate(rng: &mut Rng) -> ExInstance {
    let n = 1 + rng.below(9);
    let density = 1 + rng.below(6);
    let zeros = rng.chance(1, 5);
    let weights: Vec<i64> = (0..n).map(|_| if zeros && rng.chance(1, 3) { 0 } else { 1 + rng.below(9) as i64 }).collect();
    let unit = rng.chance(1, 4);
    let mut edges = vec![];
    for a in 0..n { for b in (a + 1)..n { if rng.below(8) < density { edges.push((a, b)); } } }
    let mut content = format!("c generated\np edge {n} {}\n", edges.len());
    if !unit { for (i, w) in weights.iter().enumerate() { content.push_str(&format!("n {} {w}\n", i + 1)); } }
    for (a, b) in edges.iter() { content.push_str(&format!("e {} {}\n", a + 1, b + 1)); }
    let w = |i: usize| if unit { 1 } else { weights[i] };
    let mut best = 0i64;
    for m in 0u32..(1 << n) {
        if edges.iter().any(|(a, b)| m >> a & 1 == 1 && m >> b & 1 == 1) { continue; }
        best = best.max((0..n).filter(|i| m >> i & 1 == 1).map(w).sum());
    }
    ExInstance { content, file_name: "g.clq".into(), expected: Some(best), no_solution_prints: -1, describe: format!("misp n={n} weights={:?} edges={:?}", (0..n).map(w).collect::<Vec<_>>(), edges) }
}
