//! talentsched example (talent scheduling: order the scenes of a film so that the total salary of the actors is
//! minimal; an actor is paid his daily cost for every day between his first and his last scene, both included,
//! whether he plays that day or not; scene `s` lasts `duration[s]` days).
//!
//! File format (io_utils.rs): line 1 = instance name (skipped, whatever it is); then - empty lines are skipped
//! everywhere - either `nb_scenes` and `nb_actors` on two lines or `nb_scenes nb_actors` on one line; then one
//! line per actor: nb_scenes 0/1 flags followed by the actor's cost; then ONE line with the nb_scenes durations.
//! Tokens are separated by any ascii whitespace, `\r\n` line ends are fine (the shipped files use them).
//! CLI: `<fname> --threads <t> [--width <w>]` (threads defaults to 8; t workers of a ParallelSolver).
//! Printed: `Objective:  {-best_value}` = the minimal total cost as a positive number (the model maximises the
//! negated cost); -1 if there were no solution (cannot happen: every permutation is feasible).
use super::{ExInstance, ExampleSpec};
use crate::rng::Rng;

pub fn spec() -> ExampleSpec {
    ExampleSpec { name: "talentsched", generate, cli, sched_threads: |t| t,
        premises: "1 <= nb_scenes <= 9 (brute force over the permutations; the model needs <= 64 scenes and <= 64 actors: Set64); 0 <= nb_actors <= 12; \
actor costs >= 1 and scene durations >= 1 as in the problem definition and all shipped instances (the rough bound divides by the summed cost of the on-location actors of a scene: 0/0 otherwise); \
flags are exactly 0 or 1; the first line is a name line; exactly one line of durations; no whitespace-only lines other than truly empty ones (the reader skips `line.is_empty()` only, `\\r\\n` ends count as empty)" }
}
fn cli(path: &str, width: Option<usize>, threads: usize) -> Vec<String> {
    let mut v = vec![path.to_string(), "--threads".into(), threads.to_string()];
    if let Some(w) = width { v.push("--width".into()); v.push(w.to_string()); }
    v
}

/// lexicographic next permutation; false when `p` was the last one
pub(super) fn next_permutation(p: &mut [usize]) -> bool {
    let n = p.len();
    if n < 2 { return false; }
    let mut i = n - 1;
    while i > 0 && p[i - 1] >= p[i] { i -= 1; }
    if i == 0 { return false; }
    let mut j = n - 1;
    while p[j] <= p[i - 1] { j -= 1; }
    p.swap(i - 1, j);
    p[i..].reverse();
    true
}

fn generate(rng: &mut Rng) -> ExInstance {
    // sizes: mostly 6..9 scenes and up to 12 actors so that the restricted diagrams of width 1..3 are inexact, plus the degenerate sizes
    let n = *rng.pick(&[1usize, 2, 3, 4, 5, 6, 6, 7, 7, 7, 8, 8, 8, 8, 9]);
    let m = *rng.pick(&[0usize, 1, 2, 3, 4, 5, 6, 6, 7, 8, 8, 9, 10, 12]);
    let density = 2 + rng.below(6); // out of 9
    let unit_cost = rng.chance(1, 5);
    let unit_dur = rng.chance(1, 5);
    let max_cost = *rng.pick(&[2usize, 5, 9, 40]);
    let max_dur = *rng.pick(&[2usize, 3, 5, 9]);
    let mut plays: Vec<Vec<bool>> = (0..m).map(|_| (0..n).map(|_| rng.below(9) < density).collect()).collect();
    // degenerate-but-legal shapes: an actor without any scene, an actor in every scene, two identical actors
    if m > 0 && rng.chance(1, 8) { let a = rng.below(m); plays[a] = vec![false; n]; }
    if m > 0 && rng.chance(1, 8) { let a = rng.below(m); plays[a] = vec![true; n]; }
    if m > 1 && rng.chance(1, 8) { let a = rng.below(m); let b = rng.below(m); plays[a] = plays[b].clone(); }
    // two identical scenes / a scene without actors
    if n > 1 && rng.chance(1, 8) { let s = rng.below(n); let t = rng.below(n); for a in 0..m { plays[a][s] = plays[a][t]; } }
    if rng.chance(1, 8) { let s = rng.below(n); for a in 0..m { plays[a][s] = false; } }
    let cost: Vec<usize> = (0..m).map(|_| if unit_cost { 1 } else { 1 + rng.below(max_cost) }).collect();
    let dur: Vec<usize> = (0..n).map(|_| if unit_dur { 1 } else { 1 + rng.below(max_dur) }).collect();

    // ---- file ----
    let eol = if rng.chance(1, 3) { "\r\n" } else { "\n" };
    let sep = *rng.pick(&[" ", " ", "  ", "\t"]);
    let mut content = format!("generated{eol}");
    if rng.chance(1, 2) { content.push_str(&format!("{n}{eol}{m}{eol}")); } else { content.push_str(&format!("{n}{sep}{m}{eol}")); }
    if rng.chance(1, 2) { content.push_str(eol); }
    for a in 0..m {
        let flags: Vec<String> = plays[a].iter().map(|&b| if b { "1".to_string() } else { "0".to_string() }).collect();
        content.push_str(&format!("{}{sep}{sep}{}{}{eol}", flags.join(sep), cost[a], if rng.chance(1, 6) { " " } else { "" }));
    }
    if rng.chance(1, 2) { content.push_str(eol); }
    content.push_str(&format!("{}{eol}", dur.iter().map(|d| d.to_string()).collect::<Vec<_>>().join(sep)));
    if rng.chance(1, 3) { content.push_str(eol); }

    // ---- oracle: every order of the scenes; an actor is paid for all days from his first to his last scene ----
    let scenes_of: Vec<Vec<usize>> = (0..m).map(|a| (0..n).filter(|&s| plays[a][s]).collect()).collect();
    let mut perm: Vec<usize> = (0..n).collect(); // perm[k] = scene shot in slot k
    let mut slot = vec![0usize; n];
    let mut prefix = vec![0i64; n + 1]; // prefix[k] = number of days before slot k
    let mut best = i64::MAX;
    loop {
        for k in 0..n { slot[perm[k]] = k; prefix[k + 1] = prefix[k] + dur[perm[k]] as i64; }
        let mut total = 0i64;
        for a in 0..m {
            if scenes_of[a].is_empty() { continue; }
            let first = scenes_of[a].iter().map(|&s| slot[s]).min().unwrap();
            let last = scenes_of[a].iter().map(|&s| slot[s]).max().unwrap();
            total += cost[a] as i64 * (prefix[last + 1] - prefix[first]);
        }
        best = best.min(total);
        if !next_permutation(&mut perm) { break; }
    }
    let rows: Vec<String> = (0..m).map(|a| format!("{}:{}", plays[a].iter().map(|&b| if b { '1' } else { '0' }).collect::<String>(), cost[a])).collect();
    ExInstance { content, file_name: "ts.dat".into(), expected: Some(best), no_solution_prints: -1,
        describe: format!("talentsched scenes={n} actors={m} actor rows (flags:cost)={:?} durations={:?}", rows, dur) }
}
