//! Family T: table-driven layered DP with powerset relaxation, and its
//! reference model (exact value-to-go by backward induction, exhaustive path
//! enumeration). The reference model shares no code with ddo and never goes
//! through a decision diagram.
use std::cmp::Ordering;
use std::sync::Arc;

use ddo::{Decision, DecisionCallback, Dominance, Problem, Relaxation, StateRanking, Variable};
use serde::{Deserialize, Serialize};

use crate::rng::{mix, Rng};

/// "minus infinity" of the reference model (no feasible completion)
/// the reference model computes values-to-go in 128 bits: a legal model only needs its prefix and total values to fit an isize,
/// its cost-to-go may leave that range (ddo's own suffix bounds then saturate)
pub type Wide = i128;
pub const NEG: Wide = Wide::MIN / 4;
pub fn clamp_isize(x: Wide) -> isize { x.clamp(isize::MIN as Wide, isize::MAX as Wide) as isize }

#[derive(Debug, Clone, Serialize, Deserialize, PartialEq, Eq)]
pub enum Rub { None, Exact, Slack(isize),
    /// exact value-to-go plus a slack of 0..4 that depends on the state (and layer): admissible but NOT consistent along arcs - a state may
    /// have a tight bound while its parent's is loose and vice versa (a uniformly loose bound can never prune all children of a node it keeps)
    Ragged(u64) }

#[derive(Debug, Clone, Serialize, Deserialize, PartialEq, Eq)]
pub enum DomRule {
    /// key = (), single coordinate h*(layer, base state) [depth-embedded] or the whole column of h* [depth-free]
    Exact,
    /// fewer comparable pairs: key also contains (base state mod 2)
    FinerKey,
    /// the classical DP dominance: a simulates b (every decision sequence feasible from b is feasible from a with
    /// arc costs at least as large); encoded as indicator coordinates of the greatest simulation preorder
    Sim,
}

/// The explicit, self-contained description of one instance (what goes into a replay file).
#[derive(Debug, Clone, Serialize, Deserialize, PartialEq, Eq)]
pub struct Table {
    /// number of layers / variables
    pub n: usize,
    /// base states per layer
    pub s: usize,
    /// decisions per variable (values 0..d)
    pub d: usize,
    /// next[layer][base state][decision]
    pub next: Vec<Vec<Vec<Option<u8>>>>,
    pub cost: Vec<Vec<Vec<isize>>>,
    pub v0: isize,
    /// variable decided at layer l (a permutation of 0..n)
    pub order: Vec<usize>,
    /// does the state embed its depth ?
    pub depth_in_state: bool,
    /// irrelevant[layer][base state]: the variable of that layer does not impact that state
    /// (single neutral decision 0: stay in the same base state at cost 0). Only with depth-free states.
    pub irrelevant: Vec<Vec<bool>>,
    pub rub: Rub,
    /// potential used by `relax` (None: relax returns the cost unchanged)
    pub pot: Option<Vec<Vec<isize>>>,
    /// seed of the random total order used as state ranking
    pub rank_seed: u64,
    /// "top" relaxation: the last base state of every layer simulates all the others (all decisions, maximal costs, goes to the next
    /// top) and `merge` returns that (exact looking) state instead of the union. A merged node can then coincide with a genuinely exact
    /// node of the layer (ddo recycles that node), which the powerset relaxation alone cannot produce on a first merge.
    #[serde(default)]
    pub top_merge: bool,
}

#[derive(Debug, Clone, PartialEq, Eq, Hash)]
pub struct TState {
    /// Some(layer) when the depth is embedded in the state, else None
    pub layer: Option<u8>,
    /// set of base states (bitmask). Singletons are exactly the exact states.
    pub set: u32,
}

#[derive(Debug, Clone, Copy, Default)]
pub struct GenOpts {
    pub depth_free: bool,
    pub long_arcs: bool,
    pub max_n: usize,
    pub max_s: usize,
    pub reconverge: bool, // few base states, many paths (C09)
    pub dom_friendly: bool, // some base states are degraded copies of others (so that simulation dominance has pairs)
    pub few_dead_arcs: bool,
    /// share (in quarters) of knapsack-shaped tables (base state = capacity used; heavy re-convergence, many layers)
    pub knapsack_quarters: u64,
    pub top_merge_quarters: u64,
    /// one instance in `abyss_one_in` (0 = never) has arc costs around -2^61 and an initial value of 3 * 2^61: every prefix and total
    /// value fits an isize but the cost-to-go of 4 or more arcs does not (ddo's suffix bounds saturate at isize::MIN)
    pub abyss_one_in: u64,
    /// one instance in `penalty_one_in` (0 = never) has 'forbidden' arcs in its LAST layer, encoded the way the shipped sop example
    /// does: cost -isize::MAX (+ 0..3). Such an arc is only put on a state that keeps another, ordinary arc. The value of a path that
    /// ends with it saturates at isize::MIN when its prefix is worth less than -1 (ddo's arithmetic saturates; so does `Inst::replay`)
    pub penalty_one_in: u64,
}

impl Table {
    /// a 0/1 knapsack written as a table: base state = capacity already used (root = 0), decision 1 = take the item
    pub fn generate_knapsack(rng: &mut Rng, o: GenOpts) -> Table {
        let n = 5 + rng.below(if o.max_n >= 8 { 5 } else { 3 });
        let cap = 6 + rng.below(9);
        let s = cap + 1;
        let d = 2;
        let mut next = vec![vec![vec![None; d]; s]; n];
        let mut cost = vec![vec![vec![0isize; d]; s]; n];
        for l in 0..n {
            let w = 1 + rng.below(5); let p = 1 + rng.below(12) as isize;
            for used in 0..s { next[l][used][0] = Some(used as u8); if used + w <= cap { next[l][used][1] = Some((used + w) as u8); cost[l][used][1] = p; } }
        }
        let mut order: Vec<usize> = (0..n).collect();
        if rng.chance(1, 2) { for i in (1..n).rev() { let j = rng.below(i + 1); order.swap(i, j); } }
        let rub = match rng.below(4) { 0 => Rub::None, 1 => Rub::Exact, 2 => Rub::Slack(*rng.pick(&[1isize, 2, 3, 4, 6, 10, 20])), _ => Rub::Ragged(rng.next()) };
        Table { n, s, d, next, cost, v0: 0, order, depth_in_state: !o.depth_free, irrelevant: vec![vec![false; s]; n], rub, pot: None, rank_seed: rng.next(), top_merge: false }
    }
    pub fn generate(rng: &mut Rng, o: GenOpts) -> Table {
        if o.knapsack_quarters > 0 && !o.long_arcs && rng.chance(o.knapsack_quarters, 4) { return Table::generate_knapsack(rng, o); }
        let max_n = if o.max_n == 0 { 7 } else { o.max_n };
        let max_s = if o.max_s == 0 { 6 } else { o.max_s };
        // swarm: a quarter of the instances are tiny, the rest is biased towards many layers and many base states
        let tiny = rng.chance(1, 4) && !o.reconverge;
        let n = if tiny { 2 + rng.below(2) } else if o.reconverge { 4 + rng.below(max_n - 3) } else { 3 + rng.below(max_n - 2) };
        let s = if o.reconverge { 2 + rng.below(2) } else if tiny { 1 + rng.below(3) } else { 2 + rng.below(max_s - 1) };
        let d = 2 + rng.below(2);
        let pdead = if o.few_dead_arcs || o.reconverge { rng.below(2) } else { rng.below(4) }; // probability (in 8ths) that an arc is missing
        let cost_lo = -(rng.below(7) as isize);
        let cost_hi = 1 + rng.below(9) as isize;
        let tie_heavy = rng.chance(1, 4);
        let mut next = vec![vec![vec![None; d]; s]; n];
        let mut cost = vec![vec![vec![0isize; d]; s]; n];
        let mut irrelevant = vec![vec![false; s]; n];
        let p_irr = if o.long_arcs { 1 + rng.below(4) } else { 0 };
        for l in 0..n {
            for a in 0..s {
                if o.long_arcs && rng.below(8) < p_irr {
                    irrelevant[l][a] = true;
                    next[l][a][0] = Some(a as u8);
                    cost[l][a][0] = 0;
                    continue;
                }
                for b in 0..d {
                    if rng.below(8) >= pdead { next[l][a][b] = Some(rng.below(s) as u8); }
                    cost[l][a][b] = if tie_heavy { rng.range(0, 2) } else { rng.range(cost_lo, cost_hi) };
                }
            }
        }
        if o.dom_friendly && s >= 2 {
            for l in 0..n { for b in 0..s { if rng.chance(1, 3) {
                let a = rng.below(s); if a == b || irrelevant[l][a] || irrelevant[l][b] { continue; }
                // b becomes a degraded copy of a: same successors (some removed), costs lowered by 0..2
                for x in 0..d { next[l][b][x] = if rng.chance(1, 5) { None } else { next[l][a][x] }; cost[l][b][x] = cost[l][a][x] - rng.below(3) as isize; }
            } } }
        }
        // "top" relaxation (a quarter of the instances without long arcs, s >= 2)
        let top_merge = !o.long_arcs && s >= 2 && rng.chance(o.top_merge_quarters, 4);
        if top_merge {
            let top = s - 1;
            for l in 0..n { for x in 0..d {
                next[l][top][x] = Some(top as u8);
                cost[l][top][x] = (0..s).filter(|a| *a != top).map(|a| cost[l][a][x]).max().unwrap_or(0).max(cost[l][top][x]);
            } }
            // a few ordinary arcs lead into the top state, so that it is also reached exactly
            for l in 0..n { for a in 0..top { for x in 0..d { if next[l][a][x].is_some() && rng.chance(1, 6) { next[l][a][x] = Some(top as u8); } } } }
        }
        let mut order: Vec<usize> = (0..n).collect();
        if rng.chance(1, 2) { for i in (1..n).rev() { let j = rng.below(i + 1); order.swap(i, j); } }
        let rub = match rng.below(4) { 0 => Rub::None, 1 => Rub::Exact, 2 => Rub::Slack(*rng.pick(&[1isize, 2, 3, 4, 6, 10, 20])), _ => Rub::Ragged(rng.next()) };
        let pot = if rng.chance(1, 2) { Some((0..=n).map(|_| (0..s).map(|_| rng.below(4) as isize).collect()).collect()) } else { None };
        // one instance in ten lives far away from zero (very negative / very large initial value, costs scaled by 2^40): sums stay
        // below 2^60 in magnitude, so the reference arithmetic is exact and never meets the NEG sentinel (-2^61)
        let mut v0 = rng.range(-3, 3);
        if o.abyss_one_in > 0 && n <= 6 && !top_merge && rng.chance(1, o.abyss_one_in) {
            let base: isize = -(1isize << 61);
            for l in 0..n { for a in 0..s { for x in 0..d { if !irrelevant[l][a] { cost[l][a][x] = base + cost[l][a][x].rem_euclid(8); } } } }
            v0 = 3 * (1isize << 61);
        } else if o.penalty_one_in > 0 && n >= 2 && !top_merge && rng.chance(1, o.penalty_one_in) {
            let l = n - 1;
            for a in 0..s {
                if irrelevant[l][a] { continue; }
                let arcs: Vec<usize> = (0..d).filter(|x| next[l][a][*x].is_some()).collect();
                if arcs.len() >= 2 && rng.chance(1, 2) { let x = arcs[rng.below(arcs.len())]; cost[l][a][x] = -isize::MAX + rng.below(4) as isize; }
            }
        } else if rng.chance(1, 10) {
            let sc: isize = 1 << 40;
            for l in 0..n { for a in 0..s { for x in 0..d { cost[l][a][x] *= sc; } } }
            v0 = match rng.below(3) { 0 => -(1isize << 55), 1 => 1isize << 55, _ => v0 * sc };
        }
        Table { n, s, d, next, cost, v0, order, depth_in_state: !(o.depth_free || o.long_arcs), irrelevant, rub, pot: if top_merge { None } else { pot }, rank_seed: rng.next(), top_merge }
    }
}

/// Instance + everything derived from it (reference model included).
#[derive(Debug, Clone)]
pub struct Inst {
    pub t: Table,
    /// layer of a variable
    pub layer_of: Vec<usize>,
    /// hstar[l][a]: best value-to-go from base state a at layer l (NEG = dead end)
    pub hstar: Vec<Vec<Wide>>,
    /// for depth-free states: max over layers of hstar[.][a]
    pub hmax: Vec<Wide>,
    /// sim[l][a][b]: base state a simulates base state b at layer l (greatest simulation)
    pub sim: Vec<Vec<Vec<bool>>>,
}

impl Inst {
    pub fn new(t: Table) -> Inst {
        let mut layer_of = vec![0; t.n];
        for (l, v) in t.order.iter().enumerate() { layer_of[*v] = l; }
        let mut hstar = vec![vec![0 as Wide; t.s]; t.n + 1];
        for l in (0..t.n).rev() {
            for a in 0..t.s {
                let mut best = NEG;
                for b in 0..t.d {
                    if let Some(x) = t.next[l][a][b] {
                        let h = hstar[l + 1][x as usize];
                        if h > NEG { best = best.max(t.cost[l][a][b] as Wide + h); }
                    }
                }
                hstar[l][a] = best;
            }
        }
        let hmax = (0..t.s).map(|a| (0..=t.n).map(|l| hstar[l][a]).max().unwrap()).collect();
        let mut sim = vec![vec![vec![true; t.s]; t.s]; t.n + 1];
        for l in (0..t.n).rev() {
            for a in 0..t.s { for b in 0..t.s {
                sim[l][a][b] = (0..t.d).all(|x| match t.next[l][b][x] { None => true, Some(yb) => match t.next[l][a][x] { None => false, Some(ya) => t.cost[l][a][x] >= t.cost[l][b][x] && sim[l + 1][ya as usize][yb as usize] } });
            } }
        }
        Inst { t, layer_of, hstar, hmax, sim }
    }
    pub fn opt(&self) -> Option<isize> { let h = self.hstar[0][0]; if h <= NEG { None } else { Some(isize::try_from(self.t.v0 as Wide + h).expect("the generator keeps total values within isize")) } }
    pub fn root_state(&self) -> TState { self.state_of(0, 0) }
    pub fn state_of(&self, layer: usize, a: usize) -> TState { TState { layer: if self.t.depth_in_state { Some(layer as u8) } else { None }, set: 1 << a } }
    pub fn members(&self, set: u32) -> impl Iterator<Item = usize> + '_ { (0..self.t.s).filter(move |a| set >> a & 1 == 1) }
    /// best value-to-go of a set of base states known to be at `layer`
    pub fn h_set(&self, layer: usize, set: u32) -> Wide { self.members(set).map(|a| self.hstar[layer][a]).max().unwrap_or(NEG) }
    fn pot_set(&self, layer: usize, set: u32) -> isize {
        match &self.t.pot { Some(p) => self.members(set).map(|a| p[layer.min(self.t.n)][a]).max().unwrap_or(0), None => 0 }
    }
    fn layer_for(&self, st: &TState, dec: Decision) -> usize { match st.layer { Some(l) => l as usize, None => self.layer_of[dec.variable.id()] } }

    /// Replays a (possibly partial: default-completed on irrelevant variables) solution through the tables.
    /// Returns (value, final base state) or an explanation of why the solution is not feasible.
    pub fn replay(&self, sol: &[Decision]) -> Result<(isize, usize), String> {
        let mut by_var: Vec<Option<isize>> = vec![None; self.t.n];
        for d in sol {
            if d.variable.id() >= self.t.n { return Err(format!("decision on unknown variable {}", d.variable.id())); }
            if by_var[d.variable.id()].is_some() { return Err(format!("two decisions for variable {}", d.variable.id())); }
            by_var[d.variable.id()] = Some(d.value);
        }
        let mut a = 0usize;
        let mut v = self.t.v0;
        for l in 0..self.t.n {
            let var = self.t.order[l];
            match by_var[var] {
                None => { if !self.t.irrelevant[l][a] { return Err(format!("no decision for variable {var} (layer {l}) which impacts base state {a}")); } }
                Some(b) => {
                    if b < 0 || b as usize >= self.t.d { return Err(format!("value {b} out of the domain of variable {var}")); }
                    match self.t.next[l][a][b as usize] {
                        None => return Err(format!("decision {var}={b} not in the domain at layer {l}, base state {a}")),
                        Some(x) => { v = v.saturating_add(self.t.cost[l][a][b as usize]); a = x as usize; }
                    }
                }
            }
        }
        Ok((v, a))
    }
    /// Replays a prefix of `len` layers (used for cut-set paths): returns (value, layer reached, base state)
    pub fn replay_prefix(&self, path: &[Decision]) -> Result<(isize, usize, usize), String> {
        let mut by_var: Vec<Option<isize>> = vec![None; self.t.n];
        for d in path {
            if d.variable.id() >= self.t.n { return Err(format!("decision on unknown variable {}", d.variable.id())); }
            if by_var[d.variable.id()].is_some() { return Err(format!("two decisions for variable {}", d.variable.id())); }
            by_var[d.variable.id()] = Some(d.value);
        }
        let mut remaining = path.len();
        let mut a = 0usize; let mut v = self.t.v0; let mut l = 0usize;
        while remaining > 0 {
            if l >= self.t.n { return Err("path longer than the number of layers".into()); }
            let var = self.t.order[l];
            match by_var[var] {
                None => { if !self.t.irrelevant[l][a] { return Err(format!("prefix skips variable {var} (layer {l}) which impacts base state {a}")); } }
                Some(b) => {
                    if b < 0 || b as usize >= self.t.d { return Err(format!("value {b} out of domain")); }
                    match self.t.next[l][a][b as usize] { None => return Err(format!("decision {var}={b} infeasible at layer {l} state {a}")), Some(x) => { v = v.saturating_add(self.t.cost[l][a][b as usize]); a = x as usize; remaining -= 1; } }
                }
            }
            l += 1;
        }
        Ok((v, l, a))
    }

    /// first layer >= `from` at which base state `a` is impacted by the layer's variable (n if none)
    pub fn first_relevant(&self, from: usize, a: usize) -> usize { let mut l = from; while l < self.t.n && self.t.irrelevant[l][a] { l += 1; } l }
    /// Necessary condition of known finding D5 for the sub-problem (layer, base): its children are NOT all expanded at the same
    /// layer (some child lingers in the pool while another one is already expanded), so that a lingering direct child of the root
    /// can be merged with / reached from deeper nodes. When this does not hold, a root handed back by its own cut-set is NOT D5.
    pub fn d5_precondition(&self, layer: usize, a: usize) -> bool {
        let l = self.first_relevant(layer, a);
        if l >= self.t.n { return false; }
        let mut firsts: Vec<usize> = (0..self.t.d).filter_map(|d| self.t.next[l][a][d]).map(|c| self.first_relevant(l + 1, c as usize)).collect();
        firsts.sort_unstable(); firsts.dedup();
        firsts.len() >= 2
    }
    /// all exact sub-problems reachable from the root: (layer, base state, value, path), one entry per distinct path
    pub fn enumerate_prefixes(&self, limit: usize) -> Vec<(usize, usize, isize, Vec<Decision>)> {
        let mut out = vec![];
        let mut stack = vec![(0usize, 0usize, self.t.v0, Vec::<Decision>::new())];
        while let Some((l, a, v, path)) = stack.pop() {
            out.push((l, a, v, path.clone()));
            if out.len() >= limit { break; }
            if l < self.t.n {
                for b in 0..self.t.d {
                    if let Some(x) = self.t.next[l][a][b] {
                        let mut p = path.clone();
                        p.push(Decision { variable: Variable(self.t.order[l]), value: b as isize });
                        stack.push((l + 1, x as usize, v.saturating_add(self.t.cost[l][a][b]), p));
                    }
                }
            }
        }
        out
    }
    /// all complete trajectories from (l, a): list of (visited (layer, base state) pairs incl. start, total cost-to-go)
    pub fn enumerate_completions(&self, l: usize, a: usize) -> Vec<(Vec<(usize, usize)>, Wide)> {
        let mut out = vec![];
        let mut traj = vec![(l, a)];
        self.enum_rec(l, a, 0, &mut traj, &mut out);
        out
    }
    fn enum_rec(&self, l: usize, a: usize, acc: Wide, traj: &mut Vec<(usize, usize)>, out: &mut Vec<(Vec<(usize, usize)>, Wide)>) {
        if l == self.t.n { out.push((traj.clone(), acc)); return; }
        for b in 0..self.t.d {
            if let Some(x) = self.t.next[l][a][b] {
                traj.push((l + 1, x as usize));
                self.enum_rec(l + 1, x as usize, acc + self.t.cost[l][a][b] as Wide, traj, out);
                traj.pop();
            }
        }
    }
}

impl Problem for Inst {
    type State = TState;
    fn nb_variables(&self) -> usize { self.t.n }
    fn initial_state(&self) -> TState { self.root_state() }
    fn initial_value(&self) -> isize { self.t.v0 }
    fn transition(&self, st: &TState, dec: Decision) -> TState {
        let l = self.layer_for(st, dec);
        let mut set = 0u32;
        for a in self.members(st.set) {
            if let Some(x) = self.t.next[l][a][dec.value as usize] { set |= 1 << x; }
        }
        TState { layer: st.layer.map(|x| x + 1), set }
    }
    fn transition_cost(&self, st: &TState, _dst: &TState, dec: Decision) -> isize {
        let l = self.layer_for(st, dec);
        self.members(st.set).filter(|a| self.t.next[l][*a][dec.value as usize].is_some()).map(|a| self.t.cost[l][a][dec.value as usize]).max().unwrap_or(0)
    }
    fn next_variable(&self, depth: usize, _next_layer: &mut dyn Iterator<Item = &TState>) -> Option<Variable> {
        if depth < self.t.n { Some(Variable(self.t.order[depth])) } else { None }
    }
    fn for_each_in_domain(&self, var: Variable, st: &TState, f: &mut dyn DecisionCallback) {
        let l = self.layer_of[var.id()];
        for b in 0..self.t.d {
            if self.members(st.set).any(|a| self.t.next[l][a][b].is_some()) { f.apply(Decision { variable: var, value: b as isize }); }
        }
    }
    fn is_impacted_by(&self, var: Variable, st: &TState) -> bool {
        let l = self.layer_of[var.id()];
        self.members(st.set).any(|a| !self.t.irrelevant[l][a])
    }
}

pub struct TRelax<'a>(pub &'a Inst);
impl Relaxation for TRelax<'_> {
    type State = TState;
    fn merge(&self, states: &mut dyn Iterator<Item = &TState>) -> TState {
        let mut set = 0; let mut layer = None;
        for s in states { set |= s.set; layer = s.layer; }
        if self.0.t.top_merge { set = 1 << (self.0.t.s - 1); }
        TState { layer, set }
    }
    fn relax(&self, src: &TState, dst: &TState, merged: &TState, dec: Decision, cost: isize) -> isize {
        if self.0.t.pot.is_some() {
            let l = self.0.layer_for(src, dec) + 1;
            cost + self.0.pot_set(l, merged.set) - self.0.pot_set(l, dst.set)
        } else { cost }
    }
    fn fast_upper_bound(&self, st: &TState) -> isize {
        let h = match st.layer {
            Some(l) => self.0.h_set(l as usize, st.set),
            None => self.0.members(st.set).map(|a| self.0.hmax[a]).max().unwrap_or(NEG),
        };
        // an admissible bound may be clamped into the isize range (clamping a value below isize::MIN up to isize::MIN keeps it a bound)
        match self.0.t.rub {
            Rub::None => isize::MAX,
            Rub::Exact => clamp_isize(h),
            Rub::Slack(k) => if h <= NEG { clamp_isize(h) } else { clamp_isize(h + k as Wide) },
            Rub::Ragged(seed) => if h <= NEG { clamp_isize(h) } else { clamp_isize(h + (crate::rng::mix(seed, (st.layer.map_or(255u64, |l| l as u64) << 32) | st.set as u64) % 5) as Wide) },
        }
    }
}

/// A fixed random total order per instance (never per call: sort routines need consistency).
pub struct TRank(pub u64);
impl StateRanking for TRank {
    type State = TState;
    fn compare(&self, a: &TState, b: &TState) -> Ordering {
        let k = |s: &TState| mix(self.0, (s.set as u64) << 8 | s.layer.map(|l| l as u64 + 1).unwrap_or(0));
        k(a).cmp(&k(b)).then(a.set.cmp(&b.set))
    }
}

/// Dominance rules derived from the reference model (use_value = true). `Exact` / `FinerKey` compare the exact
/// value-to-go: a verdict "dominated" then means a STRICTLY better total (value + value-to-go), so discards can
/// never be cyclic. `Sim` is the classical state dominance of dynamic programming (a simulation), where ties are
/// harmless because the relation is preserved by transitions. A rule that is only bound-wise admissible AND allows
/// ties (e.g. value-to-go plus an arbitrary tie-breaking coordinate) is deliberately NOT generated: ddo's store
/// keeps entries of states whose exploration was delegated to other sub-problems, and with such a rule two
/// equally good sub-problems can discard each other (see DESIGN.md section 7).
pub struct TDom { pub inst: Arc<Inst>, pub rule: DomRule }
impl Dominance for TDom {
    type State = TState;
    type Key = (u8, u8);
    fn get_key(&self, state: Arc<TState>) -> Option<(u8, u8)> {
        if state.set.count_ones() != 1 { return None; }
        let a = state.set.trailing_zeros() as u8;
        let l = state.layer.unwrap_or(0);
        Some(match self.rule { DomRule::FinerKey => (l, a % 2), _ => (l, 0) })
    }
    fn nb_dimensions(&self, state: &TState) -> usize {
        let per_layer = if self.rule == DomRule::Sim { self.inst.t.s } else { 1 };
        if state.layer.is_some() { per_layer } else { (self.inst.t.n + 1) * per_layer }
    }
    fn get_coordinate(&self, state: &TState, i: usize) -> isize {
        let a = state.set.trailing_zeros() as usize;
        if self.rule == DomRule::Sim {
            let s = self.inst.t.s;
            match state.layer { Some(l) => self.inst.sim[l as usize][a][i] as isize, None => self.inst.sim[i / s][a][i % s] as isize }
        } else {
            match state.layer { Some(l) => clamp_isize(self.inst.hstar[l as usize][a]), None => clamp_isize(self.inst.hstar[i][a]) }
        }
    }
    fn use_value(&self) -> bool { true }
}
