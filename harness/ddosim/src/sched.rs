//! Engine S: the hook scheduler.
//!
//! Real OS threads of ddo's `ParallelSolver` run real code, but only one of
//! them runs at a time: every worker parks at the hooks that the feature
//! `xgillard_ddo_verif` adds around the critical mutex / condvar / thread
//! start+exit, and at the harness-side yield points (wrapped Cache,
//! DominanceChecker, Cutoff, WidthHeuristic). Whenever nobody runs, one seeded
//! PRNG picks the next worker among the enabled ones. One seed = one schedule.
use std::cell::Cell;
use std::collections::VecDeque;
use std::sync::atomic::{AtomicUsize, Ordering};
use std::sync::{Arc, Condvar, Mutex, RwLock};

use ddo::verif_hooks::{set_callback, Event};
use serde::{Deserialize, Serialize};

use crate::rng::Rng;

#[derive(Debug, Clone, Copy, PartialEq, Eq)]
pub enum Pt { Start, Lock(&'static str), Yield(u8), Handoff, AfterWait }
#[derive(Debug, Clone, Copy, PartialEq, Eq)]
pub enum St { NotStarted, Parked(Pt), Running, CondWaiting, Woken, Exited }

/// what a worker is doing from the solver's point of view (rebuilt from lock sites)
#[derive(Debug, Clone, Copy, PartialEq, Eq)]
pub enum Phase { Idle, AfterGetWorkload, Processing }

/// yield kinds (harness-side seams)
pub mod yk {
    pub const CUTOFF: u8 = 1;
    pub const CACHE_GET: u8 = 2;
    pub const CACHE_UPD: u8 = 3;
    pub const CACHE_CLEAR_LAYER: u8 = 4;
    pub const CACHE_CLEAR: u8 = 5;
    pub const DOM: u8 = 6;
    pub const WIDTH: u8 = 7;
    pub const DOM_CLEAR: u8 = 8;
}

#[derive(Debug, Clone, Serialize, Deserialize, PartialEq, Eq)]
pub enum Strategy {
    Uniform,
    /// continue the same worker with probability (den-1)/den
    Sticky(u8),
    /// PCT style: random priorities, the running worker is demoted at the given steps
    Pct(Vec<u32>),
    /// worker w only runs when nobody else can
    Starve(u8),
    RoundRobin,
    /// switch preferably at cache / dominance operations
    CacheBiased,
    /// non pre-emptive: keep running the current worker while it is enabled (lowest tid otherwise),
    /// except at the listed (step, tid) pre-emptions. Used by minimised replays.
    Explicit(Vec<(u32, u8)>),
    /// follow exactly this list of choices (fallback: lowest enabled tid, flagged as divergence)
    Forced(Vec<u8>),
}

#[derive(Debug, Clone, Default, Serialize, Deserialize)]
pub struct SchedStats {
    pub steps: usize,
    pub switches: usize,
    pub preemptions: usize, // switches where the previous worker was still enabled
    pub cond_waits: usize,
    pub multi_wake: usize, // notify_all that woke >= 2 parked workers
    pub max_concurrent_processing: usize,
    pub lock_sites: [usize; 6],
    pub yields: [usize; 9],
    pub abstract_states: Vec<u64>,
    pub trace_hash: u64,
    pub diverged: bool,
    pub worker_panicked: bool,
    pub premature_exit: bool,
    pub abort_with_peer_parked: bool,
    pub abort_with_peer_processing: bool,
    pub exit_with_peer_processing: bool,
}

#[derive(Debug, Clone, Copy, PartialEq, Eq, Serialize, Deserialize)]
pub enum Fatal { Deadlock, StepBound, UnexpectedWaker, /// the hook reported notify_all + unlock, but the woken waiter never came back from wait()
    LostHandoff }

struct Inner {
    th: Vec<St>,
    phase: Vec<Phase>,
    current: Option<usize>,
    owner: Option<usize>,
    woken: VecDeque<usize>,
    condq: VecDeque<usize>,
    expected: usize,
    awaiting: bool,
    awaiting_since: Option<std::time::Instant>,
    pending_owner: Option<usize>,
    rng: Rng,
    strategy: Strategy,
    prio: Vec<u32>,
    last: Option<usize>,
    schedule: Vec<u8>,
    enabled_masks: Vec<u16>,
    stats: SchedStats,
    done: bool,
    fatal: Option<Fatal>,
    max_steps: usize,
    aborted: bool,
    states_seen: fxhash::FxHashSet<u64>,
}

pub struct Sched {
    m: Mutex<Inner>,
    cv: Condvar,
    /// length of the (checked) fringe as maintained by the harness wrapper
    pub fringe_len: AtomicUsize,
    /// called (on the detecting worker thread) when the run cannot go on; must not return
    fatal_handler: Box<dyn Fn(Fatal, &SchedReport) + Send + Sync>,
}

#[derive(Debug, Clone, Serialize, Deserialize)]
pub struct SchedReport {
    pub stats: SchedStats,
    pub schedule: Vec<u8>,
    /// bit i set: worker i was enabled at that decision (used by the pre-emption sweep)
    #[serde(default)]
    pub enabled_masks: Vec<u16>,
    pub fatal: Option<Fatal>,
    pub thread_states: Vec<String>,
}

thread_local! { static TID: Cell<Option<usize>> = const { Cell::new(None) }; }
static CURRENT: RwLock<Option<Arc<Sched>>> = RwLock::new(None);

pub fn trace_on() -> bool { static T: std::sync::OnceLock<bool> = std::sync::OnceLock::new(); *T.get_or_init(|| std::env::var("DDOSIM_TRACE").is_ok()) }
pub fn current_tid() -> Option<usize> { TID.with(|t| t.get()) }

/// harness-side yield point: no-op outside a scheduled worker thread
#[inline]
pub fn yield_point(kind: u8) {
    if let Some(me) = current_tid() {
        let s = CURRENT.read().unwrap().clone();
        if let Some(s) = s { s.yield_at(me, kind); }
    }
}
/// the harness tells the scheduler how long the shared fringe is (for abstract state / premature-exit checks)
pub fn set_fringe_len(n: usize) {
    let s = CURRENT.read().unwrap().clone();
    if let Some(s) = s { s.fringe_len.store(n, Ordering::SeqCst); }
}

fn site_idx(site: &str) -> usize {
    match site { "best_lb" => 0, "maybe_update_best" => 1, "enqueue_cutset" => 2, "notify_node_finished" => 3, "abort_search" => 4, _ => 5 }
}

impl Sched {
    pub fn install(nb_threads: usize, seed: u64, strategy: Strategy, max_steps: usize,
                   fatal_handler: Box<dyn Fn(Fatal, &SchedReport) + Send + Sync>) -> Arc<Sched> {
        let mut rng = Rng::new(seed);
        let prio = { let mut p: Vec<u32> = (0..nb_threads as u32).map(|i| 1000 + i).collect(); for i in (1..p.len()).rev() { let j = rng.below(i + 1); p.swap(i, j); } p };
        let s = Arc::new(Sched {
            m: Mutex::new(Inner {
                th: vec![St::NotStarted; nb_threads], phase: vec![Phase::Idle; nb_threads], current: None, owner: None,
                woken: VecDeque::new(), condq: VecDeque::new(), expected: nb_threads, awaiting: false, awaiting_since: None, pending_owner: None,
                rng, strategy, prio, last: None, schedule: vec![], enabled_masks: vec![], stats: SchedStats::default(), done: nb_threads == 0, fatal: None, max_steps,
                aborted: false, states_seen: Default::default(),
            }),
            cv: Condvar::new(), fringe_len: AtomicUsize::new(0), fatal_handler,
        });
        *CURRENT.write().unwrap() = Some(s.clone());
        let s2 = s.clone();
        set_callback(Some(Arc::new(move |ev| s2.on_event(ev))));
        s
    }
    pub fn uninstall(&self) -> SchedReport {
        set_callback(None);
        *CURRENT.write().unwrap() = None;
        let g = self.m.lock().unwrap();
        Self::report(&g)
    }
    fn report(g: &Inner) -> SchedReport {
        let mut stats = g.stats.clone();
        stats.abstract_states = { let mut v: Vec<u64> = g.states_seen.iter().copied().collect(); v.sort_unstable(); v };
        SchedReport { stats, schedule: g.schedule.clone(), enabled_masks: g.enabled_masks.clone(), fatal: g.fatal, thread_states: g.th.iter().zip(g.phase.iter()).map(|(s, p)| format!("{s:?}/{p:?}")).collect() }
    }

    fn note(g: &mut Inner, tid: usize, code: u64) {
        g.stats.trace_hash = (g.stats.trace_hash ^ (tid as u64 * 131 + code)).wrapping_mul(0x100000001b3);
    }

    fn fatal(&self, g: &mut Inner, f: Fatal) -> ! {
        g.fatal = Some(f);
        let rep = Self::report(g);
        (self.fatal_handler)(f, &rep);
        std::process::exit(3)
    }

    fn enabled(g: &Inner, i: usize) -> bool {
        match g.th[i] {
            St::Parked(Pt::Lock(_)) => g.owner.is_none() && g.woken.is_empty() && g.pending_owner.is_none(),
            St::Parked(_) => true,
            _ => false,
        }
    }

    fn choose(g: &mut Inner, en: &[usize]) -> usize {
        let step = g.stats.steps as u32;
        let last_enabled = g.last.filter(|l| en.contains(l));
        let strat = g.strategy.clone();
        match strat {
            Strategy::Uniform => en[g.rng.below(en.len())],
            Strategy::Sticky(den) => {
                if let Some(l) = last_enabled { if !g.rng.chance(1, den as u64) { return l; } }
                en[g.rng.below(en.len())]
            }
            Strategy::Pct(ref points) => {
                if points.contains(&step) { if let Some(l) = g.last { let low = g.prio.iter().copied().min().unwrap_or(1); g.prio[l] = low.saturating_sub(1); } }
                *en.iter().max_by_key(|&&i| g.prio[i]).unwrap()
            }
            Strategy::Starve(w) => {
                let others: Vec<usize> = en.iter().copied().filter(|&i| i != w as usize).collect();
                if others.is_empty() { en[0] } else { others[g.rng.below(others.len())] }
            }
            Strategy::RoundRobin => {
                let n = g.th.len(); let start = g.last.map(|l| l + 1).unwrap_or(0);
                (0..n).map(|k| (start + k) % n).find(|i| en.contains(i)).unwrap()
            }
            Strategy::CacheBiased => {
                // at a cache / dominance yield: switch with probability 3/4, elsewhere stay with probability 7/8
                if let Some(l) = last_enabled {
                    let at_store = matches!(g.th[l], St::Parked(Pt::Yield(k)) if k == yk::CACHE_GET || k == yk::CACHE_UPD || k == yk::DOM || k == yk::CACHE_CLEAR_LAYER);
                    let stay = if at_store { g.rng.chance(1, 4) } else { g.rng.chance(7, 8) };
                    if stay { return l; }
                    let others: Vec<usize> = en.iter().copied().filter(|&i| i != l).collect();
                    if others.is_empty() { return l; }
                    return others[g.rng.below(others.len())];
                }
                en[g.rng.below(en.len())]
            }
            Strategy::Explicit(ref pre) => {
                if let Some(&(_, t)) = pre.iter().find(|(s, _)| *s == step) { if en.contains(&(t as usize)) { return t as usize; } }
                last_enabled.unwrap_or(en[0])
            }
            Strategy::Forced(ref list) => {
                match list.get(step as usize) {
                    Some(&t) if en.contains(&(t as usize)) => t as usize,
                    Some(_) => { g.stats.diverged = true; en[0] }
                    None => last_enabled.unwrap_or(en[0]),
                }
            }
        }
    }

    fn decide(&self, g: &mut Inner) {
        if g.current.is_some() || g.expected > 0 || g.awaiting || g.done || g.fatal.is_some() { return; }
        let en: Vec<usize> = (0..g.th.len()).filter(|&i| Self::enabled(g, i)).collect();
        if en.is_empty() {
            if g.th.iter().all(|s| *s == St::Exited) { g.done = true; self.cv.notify_all(); return; }
            self.fatal(g, Fatal::Deadlock);
        }
        if g.stats.steps >= g.max_steps { self.fatal(g, Fatal::StepBound); }
        // abstract shared state reached at this decision
        {
            let processing = g.phase.iter().filter(|p| **p == Phase::Processing).count();
            let waiting = g.th.iter().filter(|s| matches!(s, St::CondWaiting | St::Woken)).count();
            let fl = self.fringe_len.load(Ordering::SeqCst).min(15);
            let key = (processing as u64) | (waiting as u64) << 4 | (fl as u64) << 8 | (g.aborted as u64) << 12 | (g.owner.is_some() as u64) << 13
                | (en.len() as u64) << 14;
            g.states_seen.insert(key);
            g.stats.max_concurrent_processing = g.stats.max_concurrent_processing.max(processing);
        }
        let c = Self::choose(g, &en);
        if trace_on() { eprintln!("[sched] step {} -> worker {} at {:?} (enabled {:?})", g.stats.steps, c, g.th[c], en); }
        if g.last != Some(c) {
            g.stats.switches += 1;
            if let Some(l) = g.last { if en.contains(&l) { g.stats.preemptions += 1; } }
        }
        g.last = Some(c);
        g.stats.steps += 1;
        g.schedule.push(c as u8);
        g.enabled_masks.push(en.iter().fold(0u16, |m, &i| m | 1 << i));
        if let St::Parked(Pt::Lock(site)) = g.th[c] {
            g.owner = Some(c);
            g.stats.lock_sites[site_idx(site)] += 1;
            // solver-level phase model
            match site {
                "get_workload" => g.phase[c] = Phase::AfterGetWorkload,
                "best_lb" => { if g.phase[c] == Phase::AfterGetWorkload { g.phase[c] = Phase::Processing; } }
                "abort_search" => {
                    g.aborted = true;
                    for i in 0..g.th.len() { if i != c {
                        if matches!(g.th[i], St::CondWaiting) { g.stats.abort_with_peer_parked = true; }
                        if g.phase[i] == Phase::Processing { g.stats.abort_with_peer_processing = true; }
                    } }
                }
                _ => {}
            }
        }
        Self::note(g, c, 1);
        g.current = Some(c);
        g.th[c] = St::Running;
        self.cv.notify_all();
    }

    fn park<'a>(&'a self, me: usize, p: Pt, mut g: std::sync::MutexGuard<'a, Inner>) {
        g.th[me] = St::Parked(p);
        if g.current == Some(me) { g.current = None; }
        self.decide(&mut g);
        while g.current != Some(me) {
            let (g2, _) = self.cv.wait_timeout(g, std::time::Duration::from_millis(250)).unwrap();
            g = g2;
            // a hand-off of the critical mutex to a woken waiter takes microseconds; if it has not happened after seconds of
            // wall-clock time the wake-up was never delivered (e.g. notify_all is not really called where the hook says so)
            if g.awaiting {
                match g.awaiting_since { None => g.awaiting_since = Some(std::time::Instant::now()), Some(t) => if t.elapsed().as_secs_f64() > 15.0 && g.fatal.is_none() { self.fatal(&mut g, Fatal::LostHandoff); } }
            } else { g.awaiting_since = None; }
        }
    }

    fn yield_at(&self, me: usize, kind: u8) {
        let mut g = self.m.lock().unwrap();
        g.stats.yields[kind as usize] += 1;
        Self::note(&mut g, me, 100 + kind as u64);
        self.park(me, Pt::Yield(kind), g);
    }

    fn on_event(&self, ev: Event) {
        match ev {
            Event::WorkerStart(i) => {
                TID.with(|t| t.set(Some(i)));
                let mut g = self.m.lock().unwrap();
                if i >= g.th.len() { return; }
                g.expected -= 1;
                self.park(i, Pt::Start, g);
            }
            Event::WorkerExit { id, panicking } => {
                let mut g = self.m.lock().unwrap();
                TID.with(|t| t.set(None));
                if id >= g.th.len() { return; }
                g.th[id] = St::Exited;
                if panicking { g.stats.worker_panicked = true; }
                // premature completion: nobody aborted, yet work remains (open or in progress)
                if !g.aborted && !panicking {
                    let others_processing = (0..g.th.len()).any(|i| i != id && g.phase[i] == Phase::Processing);
                    if others_processing { g.stats.exit_with_peer_processing = true; }
                    if others_processing || self.fringe_len.load(Ordering::SeqCst) > 0 { g.stats.premature_exit = true; }
                }
                g.phase[id] = Phase::Idle;
                if g.owner == Some(id) { g.owner = None; }
                if g.current == Some(id) { g.current = None; }
                Self::note(&mut g, id, 7);
                self.decide(&mut g);
            }
            Event::BeforeLock(site) => {
                let me = match current_tid() { Some(m) => m, None => return };
                let mut g = self.m.lock().unwrap();
                Self::note(&mut g, me, 2 + 16 * site_idx(site) as u64);
                self.park(me, Pt::Lock(site), g);
            }
            Event::AfterUnlock(site) => {
                let me = match current_tid() { Some(m) => m, None => return };
                let mut g = self.m.lock().unwrap();
                if site == "notify_node_finished" { g.phase[me] = Phase::Idle; }
                if site == "get_workload" && g.phase[me] != Phase::AfterGetWorkload { g.phase[me] = Phase::Idle; }
                if g.owner == Some(me) { g.owner = None; }
                let handoff = g.pending_owner.is_some() || !g.woken.is_empty();
                if let Some(w) = g.pending_owner.take() { g.owner = Some(w); } else if handoff { g.awaiting = true; }
                if handoff { self.park(me, Pt::Handoff, g); }
            }
            Event::BeforeWait => {
                let me = match current_tid() { Some(m) => m, None => return };
                let mut g = self.m.lock().unwrap();
                g.owner = None;
                g.th[me] = St::CondWaiting;
                g.phase[me] = Phase::Idle;
                g.condq.push_back(me);
                g.stats.cond_waits += 1;
                g.current = None;
                Self::note(&mut g, me, 4);
                if !g.woken.is_empty() { g.awaiting = true; }
                self.decide(&mut g);
            }
            Event::AfterNotifyAll => {
                let me = match current_tid() { Some(m) => m, None => return };
                let mut g = self.m.lock().unwrap();
                Self::note(&mut g, me, 5);
                if g.condq.len() >= 2 { g.stats.multi_wake += 1; }
                while let Some(w) = g.condq.pop_front() { g.th[w] = St::Woken; g.woken.push_back(w); }
            }
            Event::AfterWait => {
                let me = match current_tid() { Some(m) => m, None => return };
                let mut g = self.m.lock().unwrap();
                if g.woken.front() != Some(&me) { self.fatal(&mut g, Fatal::UnexpectedWaker); }
                g.woken.pop_front();
                if g.owner.is_none() { g.owner = Some(me); g.awaiting = false; } else { g.pending_owner = Some(me); }
                self.park(me, Pt::AfterWait, g);
            }
        }
    }
}

/// draws a strategy for a run (swarm style)
pub fn draw_strategy(rng: &mut Rng, nb_threads: usize, cache_biased_ok: bool) -> Strategy {
    match rng.below(if cache_biased_ok { 12 } else { 10 }) {
        0 | 1 => Strategy::Uniform,
        2 => Strategy::Sticky(2),
        3 => Strategy::Sticky(4),
        4 => Strategy::Sticky(8),
        5 | 6 => { let d = 1 + rng.below(3); Strategy::Pct((0..d).map(|_| rng.below(200) as u32).collect()) }
        7 => Strategy::Starve(rng.below(nb_threads.max(1)) as u8),
        8 => Strategy::RoundRobin,
        9 => Strategy::Sticky(16),
        _ => Strategy::CacheBiased,
    }
}
