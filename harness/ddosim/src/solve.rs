//! Solver-level scenarios on family T: generate, execute (engine S for the
//! parallel solver, plain call for the sequential one), judge against the
//! reference model.
use std::panic::{catch_unwind, AssertUnwindSafe};
use std::sync::atomic::Ordering;
use std::sync::{Arc, Mutex};

use ddo::*;
use serde::{Deserialize, Serialize};

use crate::monitor::{self, MonProblem, MonRelax};
use crate::rng::Rng;
use crate::sched::{draw_strategy, Fatal, Sched, SchedReport, Strategy};
use crate::table::*;
use crate::wrap::*;

#[derive(Debug, Clone, Copy, Serialize, Deserialize, PartialEq, Eq)]
pub enum Dd { Lel, Fc, Pooled }

#[derive(Debug, Clone, Serialize, Deserialize)]
pub struct Scenario {
    pub arm: String,
    pub seed: u64,
    pub table: Table,
    pub parallel: bool,
    pub dd: Dd,
    pub cache: bool,
    pub nodup: bool,
    pub width: WidthPlan,
    pub dominance: Option<DomRule>,
    pub dom_weaken_per_mille: usize,
    pub cache_lossy_per_mille: usize,
    pub threads: usize,
    pub threads2: Option<usize>,
    pub cut: CutPlan,
    /// warm start: (value, decisions as (variable, value)) installed with set_primal before maximize()
    pub primal: Vec<(isize, Vec<(usize, isize)>)>,
    pub strategy: Strategy,
    pub sched_seed: u64,
    pub max_steps: usize,
}

#[derive(Debug, Clone, Default, Serialize, Deserialize)]
pub struct Outcome {
    pub returned: bool,
    pub panic: Option<String>,
    pub is_exact: bool,
    pub completion_value: Option<isize>,
    pub best_value: Option<isize>,
    pub best_solution: Option<Vec<(usize, isize)>>,
    pub lb: isize,
    pub ub: isize,
    pub explored: usize,
    pub polls: usize,
    pub fired: bool,
    pub sched: Option<SchedReport>,
    pub fringe: FringeStats,
    pub fringe_errors: Vec<String>,
    pub monitor: Vec<(String, String)>,
    pub primal_observed: Vec<(Option<isize>, Option<Vec<(usize, isize)>>)>,
    /// sub-problems (depth, base state) that a cut-set handed back although they had already been popped
    #[serde(default)]
    pub repushed: Vec<(usize, usize)>,
    /// thresholds published to the live cache that exceed the largest sound threshold (C09; evaluated at the end of the run)
    #[serde(default)]
    pub threshold_errors: Vec<String>,
    #[serde(default)]
    pub thresholds_checked: usize,
    pub counters: Vec<(String, usize)>,
}

#[derive(Debug, Clone, Serialize, Deserialize, PartialEq, Eq)]
pub struct Violation { pub props: Vec<String>, pub class: String, pub msg: String }

fn sol_pairs(s: &Option<Solution>) -> Option<Vec<(usize, isize)>> { s.as_ref().map(|v| v.iter().map(|d| (d.variable.id(), d.value)).collect()) }
fn pairs_sol(p: &[(usize, isize)]) -> Solution { p.iter().map(|(v, x)| Decision { variable: Variable(*v), value: *x }).collect() }
fn tkey(s: &TState) -> u64 { (s.set as u64) << 8 | s.layer.map(|l| l as u64 + 1).unwrap_or(0) }
fn tdepth(s: &TState) -> Option<usize> { s.layer.map(|l| l as usize) }

/// what kind of arm draws what
#[derive(Debug, Clone, Copy, Default)]
pub struct ArmOpts {
    pub parallel: bool,
    pub cut: bool,          // draw a cutoff index
    pub flaky_cut: bool,
    pub thread_change: bool,
    pub primal: bool,
    pub long_arcs: bool,
    pub depth_free: bool,
    pub reconverge: bool,
    pub force_cache: Option<bool>,
    pub force_dom: Option<bool>,
    pub force_pooled: bool,
    pub perturb: bool,      // width jitter / lossy cache / weakened dominance allowed
    pub max_threads: usize,
    pub allow_nodup_depth_free: bool,
    pub force_nodup: bool,
    pub knapsack_quarters: u64,
    /// larger instances (more layers, more base states, wider diagrams): only arms whose oracle is the backward DP (no enumeration)
    pub large: bool,
}

pub fn generate(arm: &str, seed: u64, o: ArmOpts) -> Scenario {
    let mut rng = Rng::new(seed);
    let mut trng = rng.fork(1);
    let table = Table::generate(&mut trng, GenOpts { depth_free: o.depth_free, long_arcs: o.long_arcs, max_n: if o.large { 16 } else { 8 }, max_s: if o.large { 14 } else { 6 }, reconverge: o.reconverge, dom_friendly: o.force_dom == Some(true) || rng.chance(1, 3), few_dead_arcs: rng.chance(1, 3), knapsack_quarters: o.knapsack_quarters, top_merge_quarters: 1, abyss_one_in: if o.long_arcs || o.force_dom == Some(true) { 0 } else { 25 }, penalty_one_in: 12 });
    let dd = if o.force_pooled { Dd::Pooled } else { *rng.pick(&[Dd::Lel, Dd::Fc, Dd::Pooled]) };
    let cache = o.force_cache.unwrap_or_else(|| rng.chance(1, 2));
    // (the duplicate-free fringe is keyed on (state, depth) since the repair of D4: it is drawn for depth-free and long-arc models too)
    let nodup = rng.chance(1, 2) || o.force_nodup;
    let wmax = if o.large { *rng.pick(&[1, 2, 3, 4, 5, 6, 8, 10]) } else { *rng.pick(&[1, 1, 1, 2, 2, 2, 3, 3, 4]) };
    let width = if o.perturb && rng.chance(1, 3) { WidthPlan::Jitter { seed: rng.next(), max: wmax.max(2) } } else { WidthPlan::Fixed(wmax) };
    let want_dom = o.force_dom.unwrap_or_else(|| rng.chance(1, 3));
    // instances whose cost-to-go leaves the isize range get no dominance rule (its coordinates are clamped values-to-go: ties)
    let want_dom = want_dom && table.v0 != 3 * (1isize << 61);
    let dominance = if want_dom { Some(rng.pick(&[DomRule::Exact, DomRule::FinerKey, DomRule::Sim, DomRule::Sim]).clone()) } else { None };
    // depth-free states carry the whole column of values-to-go as coordinates: "strictly better somewhere" may then come from a layer
    // other than the one the states are compared at, i.e. the value-to-go rules are no longer strict in the total (ties: see DESIGN.md
    // section 7, items 1 and 8). Depth-free and long-arc models therefore only get the simulation rule, which is a true dominance.
    let dominance = if !table.depth_in_state { dominance.map(|_| DomRule::Sim) } else { dominance };
    let dom_weaken_per_mille = if o.perturb && dominance.is_some() && rng.chance(1, 4) { 200 } else { 0 };
    let cache_lossy_per_mille = if o.perturb && cache && o.force_cache.is_none() && rng.chance(1, 4) { 150 } else { 0 };
    let maxt = if o.max_threads == 0 { 4 } else { o.max_threads };
    let threads = if o.parallel { 1 + rng.below(maxt) } else { 1 };
    let threads2 = if o.thread_change { Some(1 + rng.below(maxt.max(5))) } else { None };
    let cut = if o.flaky_cut { let a = 1 + rng.below(30); CutPlan::Flaky(a, a + 1 + rng.below(6)) }
        else if o.cut { let hi = if rng.chance(1, 2) { 12 } else { 60 }; CutPlan::At(1 + rng.below(hi)) } else { CutPlan::Never };
    let inst = Inst::new(table.clone());
    let mut primal = vec![];
    // warm start: always in the primal arms, and in one run out of five of the arms with a cutoff (primal x interruption)
    if o.primal || ((o.cut || o.flaky_cut) && rng.chance(1, 5)) {
        if let Some(opt) = inst.opt() {
            // witnesses: complete feasible solutions with their value
            let mut sols = full_solutions(&inst);
            sols.retain(|(v, _)| *v > isize::MIN + (1 << 40)); // never a path that ends with a 'forbidden' (penalty) arc
            sols.sort_by_key(|(v, _)| std::cmp::Reverse(*v));
            let pickv = match rng.below(3) { 0 => opt, 1 => opt - 1, _ => opt - 1 - rng.below(4) as isize };
            // best witness not above pickv
            if let Some((v, s)) = sols.iter().find(|(v, _)| *v <= pickv) { primal.push((*v, s.clone())); }
            if rng.chance(1, 3) { let (v, s) = sols[rng.below(sols.len())].clone(); primal.push((v, s)); }
        }
    }
    let eff_threads = threads2.unwrap_or(threads);
    let strategy = if o.parallel { draw_strategy(&mut rng, eff_threads, cache) } else { Strategy::Uniform };
    Scenario { arm: arm.to_string(), seed, table, parallel: o.parallel, dd, cache, nodup, width, dominance, dom_weaken_per_mille, cache_lossy_per_mille,
        threads, threads2, cut, primal, strategy, sched_seed: rng.next(), max_steps: if o.large { 2_000_000 } else { 60_000 } }
}

/// every complete feasible decision sequence with its value (as (variable, value) pairs sorted by variable)
pub fn full_solutions(inst: &Inst) -> Vec<(isize, Vec<(usize, isize)>)> {
    let mut out = vec![];
    fn rec(inst: &Inst, l: usize, a: usize, v: isize, cur: &mut Vec<(usize, isize)>, out: &mut Vec<(isize, Vec<(usize, isize)>)>) {
        if out.len() > 5000 { return; }
        if l == inst.t.n { let mut s = cur.clone(); s.sort(); out.push((v, s)); return; }
        for b in 0..inst.t.d { if let Some(x) = inst.t.next[l][a][b] { cur.push((inst.t.order[l], b as isize)); rec(inst, l + 1, x as usize, v.saturating_add(inst.t.cost[l][a][b]), cur, out); cur.pop(); } }
    }
    rec(inst, 0, 0, inst.t.v0, &mut vec![], &mut out);
    out
}

static CUR_INST: Mutex<Option<Arc<Inst>>> = Mutex::new(None);
pub const D5_TAG: &str = " [D5-signature: a cut-set handed back a sub-problem that had already been popped (same state, depth and path); D5-precondition holds: its children are not all expanded at the same layer]";
pub const D5_TAG_NO_PRE: &str = " [a cut-set handed back a sub-problem that had already been popped, but the precondition of known finding D5 does NOT hold for it]";
type FatalHook = Box<dyn Fn(&Violation, &SchedReport) + Send + Sync>;
static FATAL_HOOK: Mutex<Option<FatalHook>> = Mutex::new(None);
/// The runner registers what must happen when the scheduler has to kill the process (deadlock, step bound).
pub fn set_fatal_hook(h: Option<FatalHook>) { *FATAL_HOOK.lock().unwrap() = h; }

fn fatal_handler(f: Fatal, rep: &SchedReport) {
    let (props, class) = match f {
        Fatal::Deadlock => (vec!["C04"], "deadlock"),
        Fatal::StepBound => (vec!["C04"], "step-bound"),
        Fatal::UnexpectedWaker => (vec![], "harness-unexpected-waker"),
        Fatal::LostHandoff => (vec!["C04"], "lost-wakeup"),
    };
    let v = Violation { props: props.iter().map(|s| s.to_string()).collect(), class: class.into(), msg: format!("{:?}: worker states {:?} after {} scheduling steps{}", f, rep.thread_states, rep.stats.steps, if REPUSH_OF_POPPED.load(Ordering::SeqCst) == 0 { "" } else {
        // (state key = set << 8 | layer+1, depth): singleton sets only
        let pre = CUR_INST.lock().unwrap().as_ref().map_or(false, |inst| REPUSHED_KEYS.lock().unwrap().iter().any(|(k, d)| { let set = (*k >> 8) as u32; set.count_ones() == 1 && *d <= inst.t.n && inst.d5_precondition(*d, set.trailing_zeros() as usize) }));
        if pre { D5_TAG } else { D5_TAG_NO_PRE } }) };
    if let Some(h) = FATAL_HOOK.lock().unwrap().as_ref() { h(&v, rep); }
    use std::io::Write; let _ = std::io::stdout().flush();
}

pub fn execute(sc: &Scenario) -> Outcome {
    let inst = Arc::new(Inst::new(sc.table.clone()));
    match (sc.dd, sc.cache) {
        (Dd::Lel, false) => exec_with::<DefaultMDDLEL<TState>, EmptyCache<TState>>(sc, inst),
        (Dd::Lel, true) => exec_with::<DefaultMDDLEL<TState>, SchedCache<SimpleCache<TState>>>(sc, inst),
        (Dd::Fc, false) => exec_with::<DefaultMDDFC<TState>, EmptyCache<TState>>(sc, inst),
        (Dd::Fc, true) => exec_with::<DefaultMDDFC<TState>, SchedCache<SimpleCache<TState>>>(sc, inst),
        (Dd::Pooled, false) => exec_with::<Pooled<TState>, EmptyCache<TState>>(sc, inst),
        (Dd::Pooled, true) => exec_with::<Pooled<TState>, SchedCache<SimpleCache<TState>>>(sc, inst),
    }
}

fn exec_with<D, C>(sc: &Scenario, inst: Arc<Inst>) -> Outcome
where D: DecisionDiagram<State = TState> + Default, C: Cache<State = TState> + Default + Send + Sync {
    let rc = new_run_ctx();
    REPUSH_OF_POPPED.store(0, Ordering::SeqCst);
    REPUSHED_KEYS.lock().unwrap().clear();
    crate::wrap::THRESHOLD_LOG.lock().unwrap().clear();
    crate::wrap::PUSH_LOG.lock().unwrap().clear();
    *CUR_INST.lock().unwrap() = Some(inst.clone());
    rc.cache_lossy_per_mille.store(sc.cache_lossy_per_mille, Ordering::Relaxed);
    rc.cache_seed.store(sc.seed as usize, Ordering::Relaxed);
    monitor::reset_counters();
    let all_relevant = sc.table.irrelevant.iter().all(|r| r.iter().all(|x| !x));
    monitor::C13_ENABLED.store(all_relevant, Ordering::Relaxed);
    let pb = MonProblem { inner: inst.as_ref(), depth_of: tdepth, all_relevant };
    let rlx_inner = TRelax(inst.as_ref());
    let rlx = MonRelax { pb: &pb, inner: &rlx_inner };
    let rank = TRank(sc.table.rank_seed);
    let width = SimWidth::<TState> { plan: sc.width.clone(), key: tkey };
    let cutoff = SimCutoff::new(sc.cut.clone());
    let dom_real;
    let dom_empty = EmptyDominanceChecker::default();
    let dominance: &(dyn DominanceChecker<State = TState> + Send + Sync) = match &sc.dominance {
        Some(rule) => { dom_real = SchedDominance { inner: SimpleDominanceChecker::new(TDom { inst: inst.clone(), rule: rule.clone() }, sc.table.n), weaken_per_mille: sc.dom_weaken_per_mille, seed: sc.seed ^ 0xD0 }; &dom_real }
        None => &dom_empty,
    };
    let mut out = Outcome::default();
    let pop_bound = if sc.parallel { 0 } else { 5_000.max(sc.max_steps / 12) };
    let mut f_simple; let mut f_nodup;
    let (fstats, ferrs);
    macro_rules! run_solver { ($fringe:expr) => {{
        let fr = $fringe;
        fr.pop_bound = pop_bound;
        if sc.parallel {
            let n_eff = sc.threads2.unwrap_or(sc.threads);
            let mut solver = ParallelSolver::<TState, D, C>::custom(&pb, &rlx, &rank, &width, dominance, &cutoff, fr, sc.threads);
            if let Some(n2) = sc.threads2 { solver = solver.with_nb_threads(n2); }
            install_primal(&mut solver, sc, &mut out);
            let sched = Sched::install(n_eff, sc.sched_seed, sc.strategy.clone(), sc.max_steps, Box::new(fatal_handler));
            let r = catch_unwind(AssertUnwindSafe(|| solver.maximize()));
            out.sched = Some(sched.uninstall());
            collect(&mut out, r, &solver);
        } else {
            let mut solver = SequentialSolver::<TState, D, C>::custom(&pb, &rlx, &rank, &width, dominance, &cutoff, fr);
            install_primal(&mut solver, sc, &mut out);
            let r = catch_unwind(AssertUnwindSafe(|| solver.maximize()));
            collect(&mut out, r, &solver);
        }
    }}}
    if sc.nodup {
        f_nodup = CheckedFringe::new(NoDupFringe::new(MaxUB::new(&rank)), true);
        f_nodup.key_of = Some(tkey);
        run_solver!(&mut f_nodup);
        fstats = f_nodup.stats.clone(); ferrs = f_nodup.errors.clone();
        out.repushed = f_nodup.repushed.iter().filter(|(s, _)| s.set.count_ones() == 1).map(|(s, d)| (*d, s.set.trailing_zeros() as usize)).collect();
    } else {
        f_simple = CheckedFringe::new(SimpleFringe::new(MaxUB::new(&rank)), false);
        f_simple.key_of = Some(tkey);
        run_solver!(&mut f_simple);
        fstats = f_simple.stats.clone(); ferrs = f_simple.errors.clone();
        out.repushed = f_simple.repushed.iter().filter(|(s, _)| s.set.count_ones() == 1).map(|(s, d)| (*d, s.set.trailing_zeros() as usize)).collect();
    }
    // C09 at the source, with the LIVE cache: every threshold published during the run against the largest threshold that can be
    // sound at all, given the final optimum as incumbent and every sub-problem ever pushed on the fringe as covered. Weaker than the
    // oracle of the dd-history arms (the incumbent at publication time is not visible here), but it sees thresholds that were derived
    // from other thresholds. Not with a dominance rule (a dominated node is covered by ANOTHER state) nor with long arcs.
    if sc.cache && sc.dominance.is_none() && all_relevant && out.returned {
        if let Some(opt) = inst.opt() {
            let covered: Vec<(usize, usize, isize)> = crate::wrap::PUSH_LOG.lock().unwrap().iter().filter(|(k, _, _)| ((*k >> 8) as u32).count_ones() == 1).map(|(k, d, v)| (*d, ((*k >> 8) as u32).trailing_zeros() as usize, *v)).collect();
            let tt = crate::history::sound_thresholds(&inst, opt as crate::table::Wide, &covered);
            for (set, depth, theta, explored) in crate::wrap::THRESHOLD_LOG.lock().unwrap().iter() {
                if set.count_ones() != 1 || *depth > inst.t.n { continue; }
                let a = set.trailing_zeros() as usize;
                out.thresholds_checked += 1;
                let sound = tt[*depth][a];
                if sound >= crate::history::T_INF { continue; }
                let upto = *theta as crate::table::Wide - if *explored { 0 } else { 1 };
                if upto > sound && out.threshold_errors.len() < 3 {
                    out.threshold_errors.push(format!("threshold ({theta}, explored = {explored}) published for base state {a} at depth {depth} discards arrivals up to value {upto}, but even with the final optimum {opt} as incumbent and every sub-problem ever pushed on the fringe as covered the largest sound threshold is {sound}"));
                }
            }
        }
    }
    monitor::on_compile_end();
    out.fringe = fstats; out.fringe_errors = ferrs;
    out.polls = cutoff.polls(); out.fired = cutoff.fired();
    out.monitor = rc.violations.lock().unwrap().clone();
    let c = |n: &str, a: &std::sync::atomic::AtomicUsize| (n.to_string(), a.load(Ordering::Relaxed));
    out.counters = vec![
        c("cache_gets", &rc.cache_gets), c("cache_hits", &rc.cache_hits), c("cache_updates", &rc.cache_updates), c("cache_dropped", &rc.cache_dropped),
        c("cache_clear_layers", &rc.cache_clear_layers), c("cache_clears", &rc.cache_clears), c("cache_get_saw_foreign_write", &rc.cache_get_saw_foreign_write),
        c("must_explore_false", &rc.must_explore_false), c("dom_checks", &rc.dom_checks), c("dom_dominated", &rc.dom_dominated), c("dom_weakened", &rc.dom_weakened),
        c("mon_layers_checked", &monitor::LAYERS_CHECKED), c("mon_layers_at_width", &monitor::LAYERS_AT_WIDTH), c("mon_relax_calls", &monitor::RELAX_CALLS),
        c("mon_merge_calls", &monitor::MERGE_CALLS), c("mon_tc_calls", &monitor::TC_CALLS), c("mon_domain_calls", &monitor::DOMAIN_CALLS), c("mon_nextvar_calls", &monitor::NEXTVAR_CALLS), c("mon_recycled_merges", &monitor::RECYCLED_MERGES),
    ];
    out.counters.push(("live_thresholds_checked".to_string(), out.thresholds_checked));
    out
}

fn install_primal<S: Solver>(solver: &mut S, sc: &Scenario, out: &mut Outcome) {
    for (v, s) in sc.primal.iter() {
        solver.set_primal(*v, pairs_sol(s));
        out.primal_observed.push((solver.best_value(), sol_pairs(&solver.best_solution())));
    }
}
fn collect<S: Solver>(out: &mut Outcome, r: std::thread::Result<Completion>, solver: &S) {
    match r {
        Ok(c) => { out.returned = true; out.is_exact = c.is_exact; out.completion_value = c.best_value; }
        Err(e) => { out.panic = Some(e.downcast_ref::<String>().cloned().or_else(|| e.downcast_ref::<&str>().map(|s| s.to_string())).unwrap_or_else(|| "panic".into())); }
    }
    // the accessors lock a parking_lot mutex (never poisoned), so they are usable after a panic as well
    out.best_value = solver.best_value();
    out.best_solution = sol_pairs(&solver.best_solution());
    out.lb = solver.best_lower_bound();
    out.ub = solver.best_upper_bound();
    out.explored = solver.explored();
}

/// which "the answer is the optimum" properties a scenario speaks about
fn optimum_props(sc: &Scenario) -> Vec<String> {
    let mut p = vec![if sc.parallel { "C03" } else { "C01" }.to_string()];
    if sc.cache { p.push("C09".into()); }
    if sc.dominance.is_some() { p.push("C10".into()); }
    if !sc.primal.is_empty() { p.push("C14".into()); }
    if sc.dd == Dd::Pooled && sc.table.irrelevant.iter().any(|r| r.iter().any(|x| *x)) { p.push("C15".into()); }
    p
}

pub fn judge(sc: &Scenario, out: &Outcome) -> Vec<Violation> {
    let inst = Inst::new(sc.table.clone());
    let opt = inst.opt();
    let mut v: Vec<Violation> = vec![];
    let d5_pre = out.repushed.iter().any(|(d, a)| *d <= inst.t.n && *a < inst.t.s && inst.d5_precondition(*d, *a));
    let d5 = if out.fringe.repush_of_popped == 0 { "" } else if d5_pre { D5_TAG } else { D5_TAG_NO_PRE };
    let mut add = |props: Vec<String>, class: &str, msg: String| v.push(Violation { props, class: class.into(), msg: if matches!(class, "no-termination" | "wrong-optimum" | "not-exact" | "exact-but-not-optimal" | "ub-after-complete") { format!("{msg}{d5}") } else { msg } });
    let s = |x: &str| x.to_string();
    let term_props = || { let mut p = vec![if sc.parallel { s("C04") } else { s("C01") }]; if sc.dd == Dd::Pooled && sc.table.irrelevant.iter().any(|r| r.iter().any(|x| *x)) { p.push(s("C15")); } p };

    // --- termination / crash -------------------------------------------------
    if let Some(p) = &out.panic {
        if p.contains("SIM-STEP-BOUND") {
            // `*-large` arms: the pop budget is not provably sufficient (see runner.rs): exhausting it is inconclusive, not a violation
            if sc.max_steps < 2_000_000 { add(term_props(), "no-termination", p.clone()); }
        }
        else {
            // a crash is a failure to terminate properly (C04 / C01) and, for an uninterrupted parallel run, also a failure to report the optimum (C03)
            let mut props = term_props();
            if sc.parallel && !out.fired { props.push(s("C03")); }
            add(props, "panic", format!("maximize() panicked: {p}"));
        }
    }
    if let Some(rep) = &out.sched {
        if rep.stats.worker_panicked && out.panic.is_none() { add(vec![s("C04")], "panic", s("a worker thread panicked")); }
        if rep.stats.premature_exit { add(vec![s("C04")], "premature-completion", s("a worker left the search loop without abort while a sub-problem was still open or in progress")); }
        if rep.stats.diverged { add(vec![], "harness-replay-divergence", s("forced schedule could not be followed")); }
    }
    // --- in situ monitors ----------------------------------------------------
    for e in out.fringe_errors.iter() { add(vec![s("C11")], "fringe-mismatch", e.clone()); }
    for e in out.threshold_errors.iter() { add(vec![s("C09")], "cache-threshold-unsound", e.clone()); }
    for (p, m) in out.monitor.iter() { add(vec![p.clone()], if p == "C12" { "callback-protocol" } else { "width-exceeded" }, m.clone()); }
    if !out.returned { return v; }

    // --- C02: coherence of what is reported ----------------------------------
    let c02 = vec![s("C02")];
    let primal_vals: Vec<isize> = sc.primal.iter().map(|p| p.0).collect();
    if out.best_value.is_some() != out.best_solution.is_some() { add(c02.clone(), "value-solution-presence", format!("best_value = {:?} but best_solution = {:?}", out.best_value, out.best_solution)); }
    if out.completion_value != out.best_value { add(c02.clone(), "completion-mismatch", format!("Completion.best_value = {:?} but best_value() = {:?}", out.completion_value, out.best_value)); }
    if let Some(bv) = out.best_value {
        if bv != out.lb { add(c02.clone(), "value-vs-lb", format!("best_value() = {bv} but best_lower_bound() = {}", out.lb)); }
        if let Some(sol) = &out.best_solution {
            let own = sc.primal.iter().any(|(pv, ps)| *pv == bv && { let mut a = ps.clone(); a.sort(); let mut b = sol.clone(); b.sort(); a == b });
            if !own {
                match inst.replay(&pairs_sol(sol)) {
                    Ok((val, _)) => if val != bv { add(c02.clone(), "solution-value", format!("best_solution {:?} evaluates to {val} in the model but best_value() = {bv}", sol)); },
                    Err(e) => add(c02.clone(), "solution-infeasible", format!("best_solution {:?} is not feasible: {e}", sol)),
                }
            }
        }
    }
    let interrupted = out.fired;
    if !interrupted && out.is_exact {
        if let Some(bv) = out.best_value { if out.ub != bv { add(c02.clone(), "ub-after-complete", format!("uninterrupted run: best_upper_bound() = {} but best_value() = {bv}", out.ub)); } }
    }
    let _ = primal_vals;

    // --- optimum (C01/C03/C09/C10/C14/C15) -----------------------------------
    if !interrupted {
        let props = optimum_props(sc);
        if !out.is_exact { add(props.clone(), "not-exact", s("uninterrupted maximize() reported is_exact = false")); }
        if out.best_value != opt { add(props.clone(), "wrong-optimum", format!("best_value = {:?} but the optimum is {:?}", out.best_value, opt)); }
    }
    // --- C05: soundness of bounds whenever a cutoff is configured (it may fire at any poll, or beyond the last one)
    if sc.cut != CutPlan::Never {
        let c05 = vec![s("C05")];
        let o = opt.unwrap_or(isize::MIN);
        if out.lb > o { add(c05.clone(), "lb-above-optimum", format!("best_lower_bound() = {} > optimum {:?} (cutoff {:?}, fired = {})", out.lb, opt, sc.cut, out.fired)); }
        if opt.is_some() && out.ub < o { add(c05.clone(), "ub-below-optimum", format!("best_upper_bound() = {} < optimum {:?} (cutoff {:?}, fired = {}, is_exact = {})", out.ub, opt, sc.cut, out.fired, out.is_exact)); }
        if out.is_exact && out.best_value != opt { add(c05.clone(), "exact-but-not-optimal", format!("is_exact = true but best_value = {:?} and the optimum is {:?}", out.best_value, opt)); }
        if interrupted {
            if let (Some(bv), Some(sol)) = (out.best_value, &out.best_solution) {
                let own = sc.primal.iter().any(|(pv, _)| *pv == bv);
                if !own { match inst.replay(&pairs_sol(sol)) {
                    Ok((val, _)) => if val != out.lb { add(c05.clone(), "solution-value", format!("after cutoff: solution evaluates to {val}, lower bound is {}", out.lb)); },
                    Err(e) => add(c05.clone(), "solution-infeasible", format!("after cutoff: {e}")),
                } }
            }
        }
    }
    // --- C14: set_primal semantics -------------------------------------------
    if !sc.primal.is_empty() {
        let mut cur: Option<(isize, Vec<(usize, isize)>)> = None;
        for (i, (pv, ps)) in sc.primal.iter().enumerate() {
            if cur.as_ref().map_or(true, |c| *pv > c.0) { cur = Some((*pv, ps.clone())); }
            let obs = &out.primal_observed[i];
            if obs.0 != cur.as_ref().map(|c| c.0) || obs.1.as_ref() != cur.as_ref().map(|c| &c.1) {
                add(vec![s("C14")], "set-primal-rule", format!("after set_primal #{i} ({pv}): best_value/solution = {:?}, expected {:?}", obs, cur));
            }
        }
    }
    v
}
