//! Arms: one function per kind of simulated run. Every arm is a pure function of (arm name, seed)
//! or of an explicit replay payload.
use serde_json::json;

use crate::agg::{hash_json, Agg, ViolationRecord};
use crate::rng::mix;
use crate::solve::{self, ArmOpts, Dd, Outcome, Scenario, Violation};
use crate::wrap::CutPlan;

pub fn solver_arm_opts(arm: &str) -> Option<ArmOpts> {
    let d = ArmOpts::default();
    Some(match arm {
        "seq-large" => ArmOpts { perturb: true, large: true, ..d },
        "par-large" => ArmOpts { parallel: true, perturb: true, large: true, ..d },
        "seq-large-cache" => ArmOpts { large: true, force_cache: Some(true), ..d },
        "par-large-cache" => ArmOpts { parallel: true, large: true, force_cache: Some(true), ..d },
        "par-large-cutoff" => ArmOpts { parallel: true, large: true, cut: true, ..d },
        "seq-free" => ArmOpts { perturb: true, knapsack_quarters: 1, ..d },
        "par-free" => ArmOpts { parallel: true, perturb: true, knapsack_quarters: 1, ..d },
        "par-free-wide" => ArmOpts { parallel: true, perturb: true, max_threads: 8, ..d },
        "par-cutoff" => ArmOpts { parallel: true, cut: true, knapsack_quarters: 1, ..d },
        "par-flaky" => ArmOpts { parallel: true, flaky_cut: true, max_threads: 8, ..d },
        "par-threads" => ArmOpts { parallel: true, thread_change: true, max_threads: 5, ..d },
        "par-threads-cutoff" => ArmOpts { parallel: true, thread_change: true, cut: true, max_threads: 5, ..d },
        "seq-cache" => ArmOpts { force_cache: Some(true), reconverge: true, knapsack_quarters: 2, ..d },
        "par-cache" => ArmOpts { parallel: true, force_cache: Some(true), reconverge: true, knapsack_quarters: 2, ..d },
        "seq-dom" => ArmOpts { force_dom: Some(true), ..d },
        "par-dom" => ArmOpts { parallel: true, force_dom: Some(true), ..d },
        "seq-primal-cache" => ArmOpts { primal: true, force_cache: Some(true), reconverge: true, knapsack_quarters: 2, ..d },
        "par-primal-cache" => ArmOpts { parallel: true, primal: true, force_cache: Some(true), reconverge: true, knapsack_quarters: 2, ..d },
        "seq-primal" => ArmOpts { primal: true, ..d },
        "par-primal" => ArmOpts { parallel: true, primal: true, ..d },
        "seq-longarc" => ArmOpts { long_arcs: true, force_pooled: true, ..d },
        "par-longarc" => ArmOpts { parallel: true, long_arcs: true, force_pooled: true, ..d },
        "seq-longarc-plain" => ArmOpts { long_arcs: true, ..d },
        "seq-depthfree" => ArmOpts { depth_free: true, ..d },
        "seq-depthfree-nodup" => ArmOpts { depth_free: true, allow_nodup_depth_free: true, ..d },
        _ => return None,
    })
}

/// restrict what a given arm is allowed to report (e.g. a non-monotone cutoff only speaks about termination)
fn filter_for_arm(arm: &str, v: Vec<Violation>) -> Vec<Violation> {
    match arm {
        "par-flaky" => v.into_iter().filter(|x| x.props.iter().any(|p| p == "C04") || x.props.is_empty()).collect(),
        _ => v,
    }
}

pub fn record_solver_run(agg: &mut Agg, sc: &Scenario, out: &Outcome, viol: &[Violation]) {
    agg.runs += 1;
    agg.hit("returned", out.returned);
    agg.hit("exact", out.is_exact);
    agg.hit("infeasible_instance", out.returned && out.is_exact && out.best_value.is_none());
    agg.hit("negative_optimum", out.best_value.map_or(false, |v| v < 0));
    agg.hit("branched(explored>=2)", out.explored >= 2);
    agg.add("explored_total", out.explored as u64);
    agg.max("explored", out.explored as u64);
    agg.add("cutoff_polls", out.polls as u64);
    agg.hit("fault:cutoff_fired", out.fired);
    if sc.max_steps >= 2_000_000 && out.panic.as_ref().map_or(false, |p| p.contains("SIM-STEP-BOUND")) { agg.add("inconclusive:pop_budget_exhausted(large arm)", 1); }
    agg.hit("fault:cutoff_fired_but_exact_anyway", out.fired && out.is_exact);
    agg.hit("fault:width_jitter", matches!(sc.width, crate::wrap::WidthPlan::Jitter { .. }));
    agg.hit("fault:rub_slack", matches!(sc.table.rub, crate::table::Rub::Slack(_) | crate::table::Rub::Ragged(_)));
    agg.hit("fault:thread_count_change", sc.threads2.is_some());
    agg.hit("fault:thread_count_increase", sc.threads2.map_or(false, |n| n > sc.threads));
    agg.hit("fault:primal_seed", !sc.primal.is_empty());
    agg.hit("primal_equals_optimum", !sc.primal.is_empty() && sc.primal.iter().any(|p| Some(p.0) == out.best_value));
    agg.add("fringe_pushes", out.fringe.pushes as u64);
    agg.add("fringe_clears", out.fringe.clears as u64);
    agg.add("fringe_coalesced", out.fringe.coalesced as u64);
    agg.hit("d5_signature(sub-problem handed back)", out.fringe.repush_of_popped > 0);
    agg.add("fringe_coalesced_diff_ub", out.fringe.coalesced_diff_ub as u64);
    agg.max("fringe_len", out.fringe.max_len as u64);
    for (k, n) in out.counters.iter() { agg.add(k, *n as u64); }
    agg.hit("probe:merged_state_equal_to_a_kept_node(recycled)", out.counters.iter().any(|c| c.0 == "mon_recycled_merges" && c.1 > 0));
    let fired_faults = |k: &str| out.counters.iter().find(|c| c.0 == k).map_or(0, |c| c.1);
    agg.hit("fault:cache_lossy_fired", fired_faults("cache_dropped") > 0);
    agg.hit("fault:dominance_weak_fired", fired_faults("dom_weakened") > 0);
    agg.hit("probe:pruned_by_cache_at_pop", fired_faults("must_explore_false") > 0);
    agg.hit("probe:dominance_pruned_node", fired_faults("dom_dominated") > 0);
    agg.hit("probe:cache_hit", fired_faults("cache_hits") > 0);
    agg.hit("probe:read_threshold_written_by_peer", fired_faults("cache_get_saw_foreign_write") > 0);
    let mut trace = 0u64;
    if let Some(rep) = &out.sched {
        let st = &rep.stats;
        trace = st.trace_hash;
        agg.add("sched_steps", st.steps as u64);
        agg.max("sched_steps", st.steps as u64);
        agg.add("sched_switches", st.switches as u64);
        agg.add("fault:preemptions", st.preemptions as u64);
        agg.add("cond_waits", st.cond_waits as u64);
        agg.hit("probe:worker_parked_and_woken", st.cond_waits > 0);
        agg.hit("probe:multi_wake", st.multi_wake > 0);
        agg.hit("probe:>=2_workers_compiling_at_once", st.max_concurrent_processing >= 2);
        agg.hit("probe:abort_with_peer_parked", st.abort_with_peer_parked);
        agg.hit("probe:abort_with_peer_processing", st.abort_with_peer_processing);
        let names = ["best_lb", "maybe_update_best", "enqueue_cutset", "notify_node_finished", "abort_search", "get_workload"];
        for (i, n) in names.iter().enumerate() { agg.add(&format!("lock:{n}"), st.lock_sites[i] as u64); }
        for s in st.abstract_states.iter() { agg.abstract_states.insert(*s); }
        agg.hit(&format!("strategy:{}", strategy_name(&sc.strategy)), true);
    }
    // distinct non-trivial case: the search really branched (>= 2 sub-problems explored); distinct by (instance, configuration, schedule)
    if out.explored >= 2 {
        let h = mix(mix(hash_json(&sc.table), hash_json(&(sc.dd, sc.cache, sc.nodup, &sc.width, &sc.dominance, sc.threads, sc.threads2, &sc.cut, &sc.primal))), trace);
        agg.distinct_case(h);
    }
    agg.add("violating_runs", (!viol.is_empty()) as u64);
    agg.sample(|| json!({"arm": sc.arm, "seed": sc.seed, "instance": {"n": sc.table.n, "s": sc.table.s, "d": sc.table.d, "next": sc.table.next, "cost": sc.table.cost, "v0": sc.table.v0, "order": sc.table.order, "rub": sc.table.rub},
        "config": {"parallel": sc.parallel, "dd": sc.dd, "cache": sc.cache, "nodup": sc.nodup, "width": sc.width, "dominance": sc.dominance, "threads": sc.threads, "threads2": sc.threads2, "cut": sc.cut, "strategy": sc.strategy},
        "result": {"is_exact": out.is_exact, "best_value": out.best_value, "solution": out.best_solution, "lb": out.lb, "ub": out.ub, "explored": out.explored, "polls": out.polls,
                   "schedule_prefix": out.sched.as_ref().map(|r| r.schedule.iter().take(60).copied().collect::<Vec<u8>>())}}));
}

fn strategy_name(s: &crate::sched::Strategy) -> &'static str {
    use crate::sched::Strategy::*;
    match s { Uniform => "uniform", Sticky(_) => "sticky", Pct(_) => "pct", Starve(_) => "starve", RoundRobin => "round_robin", CacheBiased => "cache_biased", Explicit(_) => "explicit", Forced(_) => "forced" }
}

/// one solver-level run from a seed
pub fn run_solver_arm(arm: &str, seed: u64, run: u64, agg: &mut Agg, pre: &dyn Fn(&Scenario)) -> Option<ViolationRecord> {
    let opts = solver_arm_opts(arm)?;
    let sc = solve::generate(arm, seed, opts);
    run_scenario(&sc, run, agg, pre)
}
pub fn run_scenario(sc: &Scenario, run: u64, agg: &mut Agg, pre: &dyn Fn(&Scenario)) -> Option<ViolationRecord> {
    pre(sc);
    let out = solve::execute(sc);
    let viol = filter_for_arm(&sc.arm, solve::judge(sc, &out));
    record_solver_run(agg, sc, &out, &viol);
    if viol.is_empty() { None } else {
        // make the replay exact: pin the schedule that was actually taken
        let mut rsc = sc.clone();
        if let Some(rep) = &out.sched { if !matches!(sc.strategy, crate::sched::Strategy::Explicit(_)) { rsc.strategy = crate::sched::Strategy::Forced(rep.schedule.clone()); } }
        Some(ViolationRecord { arm: sc.arm.clone(), seed: sc.seed, run, violations: viol, replay: json!({"kind": "solver", "scenario": rsc, "trace_hash": out.sched.as_ref().map(|r| r.stats.trace_hash)}) })
    }
}

/// C05 (sequential) + C19: for one sampled (instance, configuration) the uninterrupted run gives K polls,
/// then every cutoff index k in 1..=K+1 is executed (fault enumeration over the crash point).
pub fn run_seq_sweep(arm: &str, seed: u64, run: u64, agg: &mut Agg, explicit: Option<&Scenario>) -> Option<ViolationRecord> {
    let par = arm == "par-sweep";
    let opts = if par { ArmOpts { parallel: true, max_threads: 3, knapsack_quarters: 1, ..Default::default() } } else if arm == "seq-sweep-nodup" { ArmOpts { force_nodup: true, reconverge: true, force_cache: Some(false), knapsack_quarters: 3, ..Default::default() } } else { ArmOpts { knapsack_quarters: 1, ..Default::default() } };
    // one swept instance in five starts from a warm-start primal (primal x every cutoff point)
    let opts = ArmOpts { primal: mix(seed, 0x9a1) % 5 == 0, ..opts };
    let base = match explicit { Some(s) => s.clone(), None => { let mut s = solve::generate(arm, seed, opts); s.cut = CutPlan::Never; s } };
    let mut viol: Vec<Violation> = vec![];
    let full = solve::execute(&base);
    let fv = solve::judge(&base, &full);
    agg.runs += 1;
    let k_full = full.polls;
    agg.add("sweep_instances", 1);
    agg.add("sweep_polls_of_full_run", k_full as u64);
    viol.extend(fv);
    let inst = crate::table::Inst::new(base.table.clone());
    let opt = inst.opt();
    let mut prev: Option<(isize, isize)> = None;
    let mut exact_from: Option<usize> = None;
    let mut series = vec![];
    if full.returned && k_full < 5000 {
        for k in 1..=k_full + 1 {
            let mut sc = base.clone();
            sc.cut = CutPlan::At(k);
            let out = solve::execute(&sc);
            agg.add("sweep_executions", 1);
            agg.hit("fault:cutoff_fired", out.fired);
            let jv = solve::judge(&sc, &out);
            for x in jv { if !viol.iter().any(|y| y.class == x.class && y.props == x.props) { viol.push(Violation { msg: format!("[cutoff at poll {k} of {k_full}] {}", x.msg), ..x }); } }
            if !out.returned { continue; }
            series.push((k, out.lb, out.ub, out.is_exact));
            if let (Some((plb, pub_)), false) = (prev, par) {
                if out.lb < plb { viol.push(Violation { props: vec!["C19".into()], class: "lb-decreased".into(), msg: format!("cutoff at poll {} gives lower bound {} but cutoff at poll {} gives {}", k - 1, plb, k, out.lb) }); }
                if out.ub > pub_ { viol.push(Violation { props: vec!["C19".into()], class: "ub-increased".into(), msg: format!("cutoff at poll {} gives upper bound {} but cutoff at poll {} gives {}", k - 1, pub_, k, out.ub) }); }
                agg.hit("probe:ub_strictly_decreased_between_consecutive_k", out.ub < pub_);
                agg.hit("probe:lb_strictly_increased_between_consecutive_k", out.lb > plb);
            }
            prev = Some((out.lb, out.ub));
            if out.is_exact { if exact_from.is_none() { exact_from = Some(k); } } else { exact_from = None; }
            if exact_from.is_some() && !par {
                let ok = out.best_value == opt && (opt.is_none() || (out.lb == opt.unwrap() && out.ub == opt.unwrap()));
                if !ok { viol.push(Violation { props: vec!["C19".into()], class: "exact-but-bounds-open".into(), msg: format!("cutoff at poll {k}: is_exact with value {:?}, bounds [{}, {}], optimum {:?}", out.best_value, out.lb, out.ub, opt) }); }
            }
            if k <= k_full { agg.distinct_case(mix(hash_json(&(&base.table, base.dd, base.cache, base.nodup, &base.width, &base.dominance)), k as u64)); }
        }
        if exact_from.is_none() && !par { viol.push(Violation { props: vec!["C19".into()], class: "never-exact".into(), msg: format!("the run with the cutoff beyond the last poll ({}) is not exact", k_full + 1) }); }
        agg.hit("probe:nodup_coalesced_diff_ub", full.fringe.coalesced_diff_ub > 0);
    }
    agg.sample(|| json!({"arm": arm, "seed": seed, "instance": {"n": base.table.n, "s": base.table.s, "next": base.table.next, "cost": base.table.cost, "v0": base.table.v0},
        "config": {"dd": base.dd, "cache": base.cache, "nodup": base.nodup, "width": base.width, "dominance": base.dominance}, "optimum": opt,
        "series(k,lb,ub,exact)": series.iter().take(40).collect::<Vec<_>>() }));
    viol.dedup_by(|a, b| a.class == b.class && a.props == b.props);
    if viol.is_empty() { None } else { Some(ViolationRecord { arm: arm.into(), seed, run, violations: viol, replay: json!({"kind": "seq-sweep", "scenario": base}) }) }
}

pub fn is_pooled_longarc(sc: &Scenario) -> bool { sc.dd == Dd::Pooled && sc.table.irrelevant.iter().any(|r| r.iter().any(|x| *x)) }

/// Fault enumeration over the pre-emption point: for one sampled tiny (instance, configuration, thread count) the non
/// pre-emptive schedule is executed, then EVERY single pre-emption (step i, switch to another enabled worker t) is
/// executed, plus a sample of double pre-emptions. With `cutoff` the cutoff index is drawn once per instance.
pub fn run_preempt_sweep(arm: &str, seed: u64, run: u64, agg: &mut Agg, pre: &dyn Fn(&Scenario)) -> Option<ViolationRecord> {
    use crate::sched::Strategy;
    let cutoff = arm.ends_with("-cutoff");
    let mut rng = crate::rng::Rng::new(seed ^ 0x5EED);
    let mut sc = solve::generate(arm, seed, ArmOpts { parallel: true, cut: cutoff, max_threads: 3, knapsack_quarters: 1, ..Default::default() });
    if sc.threads < 2 { sc.threads = 2; }
    sc.strategy = Strategy::Explicit(vec![]);
    agg.runs += 1;
    let exec = |sc: &Scenario, agg: &mut Agg| -> (Outcome, Vec<Violation>) { pre(sc); let out = solve::execute(sc); let v = solve::judge(sc, &out); agg.add("sweep_executions", 1); (out, v) };
    let (base, bv) = exec(&sc, agg);
    let mk = |sc: &Scenario, v: Vec<Violation>| Some(ViolationRecord { arm: arm.into(), seed, run, violations: v, replay: json!({"kind": "solver", "scenario": sc}) });
    if !bv.is_empty() { return mk(&sc, bv); }
    let rep = match &base.sched { Some(r) => r.clone(), None => return None };
    let steps = rep.schedule.len();
    agg.add("preempt_sweep_instances", 1); agg.add("preempt_sweep_baseline_steps", steps as u64);
    if steps > 1200 { agg.add("preempt_sweep_skipped_too_long", 1); return None; }
    let mut singles: Vec<(u32, u8)> = vec![];
    for i in 0..steps { for t in 0..16u8 { if rep.enabled_masks[i] >> t & 1 == 1 && t != rep.schedule[i] { singles.push((i as u32, t)); } } }
    agg.add("fault:single_preemptions_enumerated", singles.len() as u64);
    let mut traces = fxhash::FxHashSet::default();
    for (i, t) in singles.iter() {
        let mut s2 = sc.clone(); s2.strategy = Strategy::Explicit(vec![(*i, *t)]);
        let (out, v) = exec(&s2, agg);
        if let Some(r) = &out.sched { if traces.insert(r.stats.trace_hash) { agg.distinct_case(crate::rng::mix(hash_json(&sc.table), r.stats.trace_hash)); } for st in r.stats.abstract_states.iter() { agg.abstract_states.insert(*st); } }
        if !v.is_empty() { return mk(&s2, v); }
    }
    // a sample of double pre-emptions: the second one is drawn among the alternatives of the run with the first one
    let doubles = 40.min(singles.len());
    for _ in 0..doubles {
        let (i1, t1) = singles[rng.below(singles.len())];
        let mut s1 = sc.clone(); s1.strategy = Strategy::Explicit(vec![(i1, t1)]);
        let (o1, _) = exec(&s1, agg);
        let r1 = match &o1.sched { Some(r) => r, None => continue };
        let later: Vec<(u32, u8)> = (i1 as usize + 1..r1.schedule.len()).flat_map(|i| (0..16u8).filter(move |t| r1.enabled_masks[i] >> t & 1 == 1 && *t != r1.schedule[i]).map(move |t| (i as u32, t))).collect();
        if later.is_empty() { continue; }
        let (i2, t2) = later[rng.below(later.len())];
        let mut s2 = sc.clone(); s2.strategy = Strategy::Explicit(vec![(i1, t1), (i2, t2)]);
        let (out, v) = exec(&s2, agg);
        agg.add("fault:double_preemptions_sampled", 1);
        if let Some(r) = &out.sched { if traces.insert(r.stats.trace_hash) { agg.distinct_case(crate::rng::mix(hash_json(&sc.table), r.stats.trace_hash)); } }
        if !v.is_empty() { return mk(&s2, v); }
    }
    agg.sample(|| json!({"arm": arm, "seed": seed, "threads": sc.threads, "baseline_steps": steps, "single_preemptions": singles.len(), "distinct_traces": traces.len(), "config": {"dd": sc.dd, "cache": sc.cache, "nodup": sc.nodup, "width": sc.width, "cut": sc.cut}, "instance": {"n": sc.table.n, "s": sc.table.s, "next": sc.table.next, "cost": sc.table.cost}}));
    None
}
