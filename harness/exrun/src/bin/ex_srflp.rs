#![allow(warnings)]
include!(concat!(env!("OUT_DIR"), "/srflp_main.rs"));
include!("../shim.rs");
