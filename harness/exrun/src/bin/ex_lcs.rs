#![allow(warnings)]
include!(concat!(env!("OUT_DIR"), "/lcs_main.rs"));
include!("../shim.rs");
