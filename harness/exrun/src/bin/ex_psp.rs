#![allow(warnings)]
include!(concat!(env!("OUT_DIR"), "/psp_main.rs"));
include!("../shim.rs");
