#![allow(warnings)]
include!(concat!(env!("OUT_DIR"), "/golomb_main.rs"));
include!("../shim.rs");
