#![allow(warnings)]
include!(concat!(env!("OUT_DIR"), "/max2sat_main.rs"));
include!("../shim.rs");
