#![allow(warnings)]
include!(concat!(env!("OUT_DIR"), "/mcp_main.rs"));
include!("../shim.rs");
