#![allow(warnings)]
include!(concat!(env!("OUT_DIR"), "/talentsched_main.rs"));
include!("../shim.rs");
