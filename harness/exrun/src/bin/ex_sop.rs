#![allow(warnings)]
include!(concat!(env!("OUT_DIR"), "/sop_main.rs"));
include!("../shim.rs");
