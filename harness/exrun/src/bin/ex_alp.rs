#![allow(warnings)]
include!(concat!(env!("OUT_DIR"), "/alp_main.rs"));
include!("../shim.rs");
