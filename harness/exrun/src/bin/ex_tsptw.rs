#![allow(warnings)]
include!(concat!(env!("OUT_DIR"), "/tsptw_main.rs"));
include!("../shim.rs");
