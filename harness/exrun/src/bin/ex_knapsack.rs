#![allow(warnings)]
include!(concat!(env!("OUT_DIR"), "/knapsack_main.rs"));
include!("../shim.rs");
