#![allow(warnings)]
include!(concat!(env!("OUT_DIR"), "/misp_main.rs"));
include!("../shim.rs");
