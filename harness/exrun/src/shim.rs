// Shared entry point of every example binary (included, not a module: it must live at the crate root next to example_main).
fn main() {
    ddosim::exshim::run(|| example_main());
}
