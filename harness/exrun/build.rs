use std::{env, fs, path::Path};
const EXAMPLES: [&str; 12] = ["knapsack", "misp", "max2sat", "mcp", "lcs", "golomb", "sop", "tsptw", "srflp", "talentsched", "psp", "alp"];
fn main() {
    let out = env::var("OUT_DIR").unwrap();
    for ex in EXAMPLES {
        let dir = format!("/repo/ddo/examples/{ex}");
        let src = fs::read_to_string(format!("{dir}/main.rs")).expect("example main.rs");
        let mut gen = String::new();
        for line in src.lines() {
            let t = line.trim_start();
            if t.starts_with("//!") { continue; }
            // `mod x;` at the crate root -> absolute path into /repo (test modules stay behind cfg(test))
            if let Some(rest) = line.strip_prefix("mod ") {
                if let Some(name) = rest.strip_suffix(';') {
                    let name = name.trim();
                    if Path::new(&format!("{dir}/{name}.rs")).exists() { gen.push_str(&format!("#[path = \"{dir}/{name}.rs\"] mod {name};\n")); continue; }
                }
            }
            if line.starts_with("fn main()") { gen.push_str(&line.replacen("fn main()", "fn example_main()", 1)); gen.push('\n'); continue; }
            gen.push_str(line); gen.push('\n');
        }
        fs::write(format!("{out}/{ex}_main.rs"), gen).unwrap();
        println!("cargo:rerun-if-changed={dir}");
        for e in fs::read_dir(&dir).unwrap() { println!("cargo:rerun-if-changed={}", e.unwrap().path().display()); }
    }
    println!("cargo:rerun-if-changed=build.rs");
}
